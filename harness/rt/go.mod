module verif/rt

go 1.20
