package validate

// Added by the verification overlay (never on disk in the repository): observers and resets the
// oracles need. Nothing here changes behaviour of the library.

import (
	"fmt"
	re "regexp"
)

// VerifResetPools installs fresh, empty pools.
func VerifResetPools() { resetPools() }

// VerifRegexpCache returns pattern key -> source text of the cached expression.
func VerifRegexpCache() map[string]string {
	out := map[string]string{}
	if cache, ok := reDict.Load().(map[string]*re.Regexp); ok {
		for k, v := range cache {
			if v == nil {
				out[k] = "<nil>"
			} else {
				out[k] = v.String()
			}
		}
	}
	return out
}

// VerifSetRegexpCache replaces the cache content (harness: start states of the cache protocol).
func VerifSetRegexpCache(patterns ...string) {
	m := map[string]*re.Regexp{}
	for _, p := range patterns {
		m[p] = re.MustCompile(p)
	}
	reDict.Store(m)
}

// VerifBorrowResult hands out a pooled result exactly as internal callers get it.
func VerifBorrowResult() *Result { return pools.poolOfResults.BorrowResult() }

// VerifRedeemResult gives a result back to the pool.
func VerifRedeemResult(r *Result) { pools.poolOfResults.RedeemResult(r) }

// VerifDefaultOpts returns a copy of the package-level default options (under their mutex).
func VerifDefaultOpts() Opts {
	defaultOptsMutex.Lock()
	defer defaultOptsMutex.Unlock()
	return defaultOpts
}

// VerifResultWantsRedeem exposes the redeem-on-merge flag.
func VerifResultWantsRedeem(r *Result) bool { return r != nil && r.wantsRedeemOnMerge }

// VerifWithRecycleResults exposes the private option AgainstSchema uses (results borrowed from the pool).
func VerifWithRecycleResults() Option { return withRecycleResults(true) }

// VerifSentinelState describes how the shared "valid, nothing to say" result (returned by many
// validators instead of a fresh one) differs from its initial value; "" when it is pristine.
func VerifSentinelState() string {
	r := emptyResult
	if len(r.Errors) == 0 && len(r.Warnings) == 0 && r.MatchCount == 1 && !r.wantsRedeemOnMerge && r.data == nil &&
		r.rootObjectSchemata.Len() == 0 && len(r.fieldSchemata) == 0 && len(r.itemSchemata) == 0 {
		return ""
	}
	return fmt.Sprintf("errors=%d warnings=%d matchCount=%d pooled=%v schemata=%d/%d/%d", len(r.Errors), len(r.Warnings), r.MatchCount,
		r.wantsRedeemOnMerge, r.rootObjectSchemata.Len(), len(r.fieldSchemata), len(r.itemSchemata))
}

// VerifRestoreSentinel puts the shared result back into its initial state (harness: executions
// must not influence each other).
func VerifRestoreSentinel() { *emptyResult = Result{MatchCount: 1} }
