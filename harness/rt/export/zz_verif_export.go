package validate

// Added by the verification overlay (never on disk in the repository): observers and resets the
// oracles need. Nothing here changes behaviour of the library.

import (
	re "regexp"
)

// VerifResetPools installs fresh, empty pools.
func VerifResetPools() { resetPools() }

// VerifRegexpCache returns pattern key -> source text of the cached expression.
func VerifRegexpCache() map[string]string {
	out := map[string]string{}
	if cache, ok := reDict.Load().(map[string]*re.Regexp); ok {
		for k, v := range cache {
			if v == nil {
				out[k] = "<nil>"
			} else {
				out[k] = v.String()
			}
		}
	}
	return out
}

// VerifSetRegexpCache replaces the cache content (harness: start states of the cache protocol).
func VerifSetRegexpCache(patterns ...string) {
	m := map[string]*re.Regexp{}
	for _, p := range patterns {
		m[p] = re.MustCompile(p)
	}
	reDict.Store(m)
}

// VerifBorrowResult hands out a pooled result exactly as internal callers get it.
func VerifBorrowResult() *Result { return pools.poolOfResults.BorrowResult() }

// VerifRedeemResult gives a result back to the pool.
func VerifRedeemResult(r *Result) { pools.poolOfResults.RedeemResult(r) }

// VerifDefaultOpts returns a copy of the package-level default options (under their mutex).
func VerifDefaultOpts() Opts {
	defaultOptsMutex.Lock()
	defer defaultOptsMutex.Unlock()
	return defaultOpts
}

// VerifResultWantsRedeem exposes the redeem-on-merge flag.
func VerifResultWantsRedeem(r *Result) bool { return r != nil && r.wantsRedeemOnMerge }

// VerifWithRecycleResults exposes the private option AgainstSchema uses (results borrowed from the pool).
func VerifWithRecycleResults() Option { return withRecycleResults(true) }
