// Package vatomic stands in for "sync/atomic" in the rewritten files of package validate.
package vatomic

import (
	"sync/atomic"

	"github.com/go-openapi/validate/verifrt"
)

type (
	Value  = verifrt.Value
	Bool   = atomic.Bool
	Int32  = atomic.Int32
	Int64  = atomic.Int64
	Uint32 = atomic.Uint32
	Uint64 = atomic.Uint64
)

func AddInt32(addr *int32, delta int32) int32    { return atomic.AddInt32(addr, delta) }
func AddInt64(addr *int64, delta int64) int64    { return atomic.AddInt64(addr, delta) }
func LoadInt32(addr *int32) int32                { return atomic.LoadInt32(addr) }
func LoadInt64(addr *int64) int64                { return atomic.LoadInt64(addr) }
func StoreInt32(addr *int32, v int32)            { atomic.StoreInt32(addr, v) }
func StoreInt64(addr *int64, v int64)            { atomic.StoreInt64(addr, v) }
func LoadUint32(addr *uint32) uint32             { return atomic.LoadUint32(addr) }
func StoreUint32(addr *uint32, v uint32)         { atomic.StoreUint32(addr, v) }
func CompareAndSwapInt32(a *int32, o, n int32) bool { return atomic.CompareAndSwapInt32(a, o, n) }
func CompareAndSwapInt64(a *int64, o, n int64) bool { return atomic.CompareAndSwapInt64(a, o, n) }
