// Package vatomic stands in for "sync/atomic" in the rewritten files of package validate.
package vatomic

import (
	"sync/atomic"
	"unsafe"

	"github.com/go-openapi/validate/verifrt"
)

type (
	Value   = verifrt.Value
	Bool    = verifrt.Bool
	Int32   = verifrt.Int32
	Int64   = verifrt.Int64
	Uint32  = verifrt.Uint32
	Uint64  = verifrt.Uint64
	Uintptr = atomic.Uintptr
)

// Pointer stands in for atomic.Pointer[T] (a generic alias is not available at this language level).
type Pointer[T any] struct{ verifrt.Pointer[T] }

func pt(load bool, p unsafe.Pointer) { verifrt.AtomicPoint(load, p) }

func AddInt32(a *int32, d int32) int32 { pt(false, unsafe.Pointer(a)); return atomic.AddInt32(a, d) }
func AddInt64(a *int64, d int64) int64 { pt(false, unsafe.Pointer(a)); return atomic.AddInt64(a, d) }
func AddUint32(a *uint32, d uint32) uint32 {
	pt(false, unsafe.Pointer(a))
	return atomic.AddUint32(a, d)
}
func AddUint64(a *uint64, d uint64) uint64 {
	pt(false, unsafe.Pointer(a))
	return atomic.AddUint64(a, d)
}
func LoadInt32(a *int32) int32          { pt(true, unsafe.Pointer(a)); return atomic.LoadInt32(a) }
func LoadInt64(a *int64) int64          { pt(true, unsafe.Pointer(a)); return atomic.LoadInt64(a) }
func LoadUint32(a *uint32) uint32       { pt(true, unsafe.Pointer(a)); return atomic.LoadUint32(a) }
func LoadUint64(a *uint64) uint64       { pt(true, unsafe.Pointer(a)); return atomic.LoadUint64(a) }
func StoreInt32(a *int32, v int32)      { pt(false, unsafe.Pointer(a)); atomic.StoreInt32(a, v) }
func StoreInt64(a *int64, v int64)      { pt(false, unsafe.Pointer(a)); atomic.StoreInt64(a, v) }
func StoreUint32(a *uint32, v uint32)   { pt(false, unsafe.Pointer(a)); atomic.StoreUint32(a, v) }
func StoreUint64(a *uint64, v uint64)   { pt(false, unsafe.Pointer(a)); atomic.StoreUint64(a, v) }
func SwapInt32(a *int32, v int32) int32 { pt(false, unsafe.Pointer(a)); return atomic.SwapInt32(a, v) }
func SwapInt64(a *int64, v int64) int64 { pt(false, unsafe.Pointer(a)); return atomic.SwapInt64(a, v) }
func CompareAndSwapInt32(a *int32, o, n int32) bool {
	pt(false, unsafe.Pointer(a))
	return atomic.CompareAndSwapInt32(a, o, n)
}
func CompareAndSwapInt64(a *int64, o, n int64) bool {
	pt(false, unsafe.Pointer(a))
	return atomic.CompareAndSwapInt64(a, o, n)
}
func CompareAndSwapUint32(a *uint32, o, n uint32) bool {
	pt(false, unsafe.Pointer(a))
	return atomic.CompareAndSwapUint32(a, o, n)
}
func CompareAndSwapUint64(a *uint64, o, n uint64) bool {
	pt(false, unsafe.Pointer(a))
	return atomic.CompareAndSwapUint64(a, o, n)
}
func LoadPointer(a *unsafe.Pointer) unsafe.Pointer {
	pt(true, unsafe.Pointer(a))
	return atomic.LoadPointer(a)
}
func StorePointer(a *unsafe.Pointer, v unsafe.Pointer) {
	pt(false, unsafe.Pointer(a))
	atomic.StorePointer(a, v)
}
