// Package vsync stands in for "sync" in the rewritten files of package validate.
package vsync

import (
	"sync"

	"github.com/go-openapi/validate/verifrt"
)

type (
	Pool      = verifrt.Pool
	Mutex     = verifrt.Mutex
	RWMutex   = sync.RWMutex
	Once      = sync.Once
	WaitGroup = sync.WaitGroup
	Map       = sync.Map
	Cond      = sync.Cond
	Locker    = sync.Locker
)

func NewCond(l Locker) *Cond { return sync.NewCond(l) }

func OnceFunc(f func()) func() { return sync.OnceFunc(f) }
