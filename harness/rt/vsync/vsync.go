// Package vsync stands in for "sync" in the rewritten files of package validate.
package vsync

import (
	"sync"

	"github.com/go-openapi/validate/verifrt"
)

type (
	Pool      = verifrt.Pool
	Mutex     = verifrt.Mutex
	RWMutex   = verifrt.RWMutex
	Once      = verifrt.Once
	Map       = verifrt.Map
	WaitGroup = sync.WaitGroup
	Cond      = sync.Cond
	Locker    = sync.Locker
)

func NewCond(l Locker) *Cond { return sync.NewCond(l) }

func OnceFunc(f func()) func() {
	var o Once
	return func() { o.Do(f) }
}

func OnceValue[T any](f func() T) func() T {
	var o Once
	var v T
	return func() T { o.Do(func() { v = f() }); return v }
}
