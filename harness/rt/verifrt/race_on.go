//go:build race

package verifrt

import (
	"runtime"
	"unsafe"
)

// RaceEnabled reports whether the binary was built with -race.
const RaceEnabled = true

func raceAcquire(p unsafe.Pointer)      { runtime.RaceAcquire(p) }
func raceRelease(p unsafe.Pointer)      { runtime.RaceRelease(p) }
func raceReleaseMerge(p unsafe.Pointer) { runtime.RaceReleaseMerge(p) }
func raceDisable()                      { runtime.RaceDisable() }
func raceEnable()                       { runtime.RaceEnable() }

// RaceErrors returns the number of races reported so far.
func RaceErrors() int { return runtime.RaceErrors() }
