//go:build race

package verifrt

import (
	"reflect"
	"runtime"
	"unsafe"
)

// RaceEnabled reports whether the binary was built with -race.
const RaceEnabled = true

func raceAcquire(p unsafe.Pointer)      { runtime.RaceAcquire(p) }
func raceRelease(p unsafe.Pointer)      { runtime.RaceRelease(p) }
func raceReleaseMerge(p unsafe.Pointer) { runtime.RaceReleaseMerge(p) }
func raceDisable()                      { runtime.RaceDisable() }
func raceEnable()                       { runtime.RaceEnable() }

// RaceErrors returns the number of races reported so far.
func RaceErrors() int { return runtime.RaceErrors() }

// markReleased makes "used after being handed back to its pool" a race the detector cannot miss: a
// helper goroutine (happens-after the Put, like everything the putter did before) declares a write to
// the whole object and publishes it to the next Get only. Whatever the previous owner does to the object
// after its Put has no happens-before relation with that write. Nothing is really written. Without this
// the detector has to find the conflict between the late access and what the NEXT owner does, many
// accesses later, and its shadow cells (four per word, replaced at random) often have forgotten by then.
func markReleased(x any, sync unsafe.Pointer) {
	v := reflect.ValueOf(x)
	if v.Kind() != reflect.Ptr || v.IsNil() || v.Elem().Kind() != reflect.Struct {
		return
	}
	size := int(v.Elem().Type().Size())
	if size == 0 {
		return
	}
	base := unsafe.Pointer(v.Pointer())
	var done int32
	go markReleasedHelper(base, size, sync, &done)
	waitDone(&done)
}

func markReleasedHelper(base unsafe.Pointer, size int, sync unsafe.Pointer, done *int32) {
	runtime.RaceWriteRange(base, size)
	runtime.RaceReleaseMerge(sync)
	setDone(done)
}

//go:norace
func setDone(p *int32) { *p = 1 }

//go:norace
func waitDone(p *int32) {
	for *p == 0 {
		runtime.Gosched()
	}
}
