package verifrt

import (
	"fmt"
	"sync"
	"unsafe"
)

// Cooperative scheduler: threads are real goroutines, exactly one is runnable. Every visible
// operation (mutex lock/unlock, atomic load/store, pool get/put, thread start/exit) announces
// itself with yield() *before* it is performed; the scheduler then picks which thread performs its
// pending operation next. A thread whose pending operation is Lock on a held mutex is disabled.

const (
	opStart = iota
	opLock
	opUnlock
	opLoad
	opStore
	opPoolGet
	opPoolPut
	opUser
	opWLock // sync.RWMutex.Lock: enabled when nobody writes and nobody reads
	opRLock // sync.RWMutex.RLock: enabled when nobody writes
)

var opNames = [...]string{"start", "lock", "unlock", "load", "store", "get", "put", "user", "wlock", "rlock"}

type thread struct {
	id      int
	wake    chan struct{}
	pendOp  int
	pendObj unsafe.Pointer
	done    bool
	steps   int
}

type scheduler struct {
	threads []*thread
	cur     int // index of the running thread, -1 when the controller runs
	active  bool
	// which op kinds are scheduling points
	points [10]bool
	// Deadlock is set when no thread is enabled although some are not finished.
	deadlock string
	switches int
	wg       sync.WaitGroup
	// visible-op log of the execution (thread, op) for replay files and state keys
	log     []SchedEvent
	keepLog bool
	// optional hook: called at every point with the running thread; used by state-keyed searches
	OnPoint  func(tid int, op int, obj unsafe.Pointer)
	poolOnly string
}

// SchedEvent is one performed visible operation.
type SchedEvent struct {
	T  int
	Op string
}

var sch scheduler

// SchedConfig selects which operations are scheduling points.
type SchedConfig struct {
	Mutex, Atomic, Pool bool
	KeepLog             bool
	// PoolOnly, when non-empty, restricts pool scheduling points to pools whose element type name
	// contains it (e.g. "Result"); PoolPutOnly drops the Get points.
	PoolOnly    string
	PoolPutOnly bool
	PoolGetOnly bool
}

// RunThreads runs the bodies as scheduler-controlled threads and returns when all have finished.
// Panics inside a body are recovered and returned per thread (nil when none).
func RunThreads(cfg SchedConfig, bodies ...func()) (panics []any, deadlock string, switches int, log []SchedEvent) {
	panics = make([]any, len(bodies))
	schedInit(cfg, len(bodies))
	for i := range bodies {
		i := i
		sch.wg.Add(1)
		go func() {
			defer sch.wg.Done()
			threadEntry(i)
			defer threadExit(i)
			defer func() {
				if r := recover(); r != nil {
					panics[i] = r
				}
			}()
			bodies[i]()
		}()
	}
	kick()
	sch.wg.Wait() // a real join: the caller really is ordered after the threads it joined
	deadlock, switches, log = schedFinish()
	return
}

//go:norace
func schedInit(cfg SchedConfig, n int) {
	sch = scheduler{cur: -1, active: true, keepLog: cfg.KeepLog, poolOnly: cfg.PoolOnly}
	sch.points[opStart] = true
	sch.points[opLock] = cfg.Mutex
	sch.points[opUnlock] = cfg.Mutex
	sch.points[opWLock] = true // waiting must be visible to the scheduler whatever the point selection
	sch.points[opRLock] = true
	sch.points[opLoad] = cfg.Atomic
	sch.points[opStore] = cfg.Atomic
	sch.points[opPoolGet] = cfg.Pool && !cfg.PoolPutOnly
	sch.points[opPoolPut] = cfg.Pool && !cfg.PoolGetOnly
	sch.points[opUser] = true
	for i := 0; i < n; i++ {
		sch.threads = append(sch.threads, &thread{id: i, wake: make(chan struct{}, 1), pendOp: opStart})
	}
}

//go:norace
func schedFinish() (string, int, []SchedEvent) {
	sch.active = false
	return sch.deadlock, sch.switches, sch.log
}

// kick lets the controller make the first decision.
//
//go:norace
func kick() {
	next := decide(-1)
	if next >= 0 {
		handTo(next)
	}
}

// threadEntry blocks a new thread until it is scheduled for the first time.
func threadEntry(i int) {
	waitTurn(i)
}

//go:norace
func waitTurn(i int) {
	t := sch.threads[i]
	raceDisable()
	<-t.wake
	raceEnable()
}

//go:norace
func handTo(next int) {
	t := sch.threads[next]
	sch.cur = next
	raceDisable()
	t.wake <- struct{}{}
	raceEnable()
}

//go:norace
func threadExit(i int) {
	t := sch.threads[i]
	t.done = true
	next := decide(i)
	if next >= 0 {
		handTo(next)
	}
}

// Yield is a user-placed scheduling point (harness bodies may call it between operations).
func Yield() { yield(opUser, nil) }

// yield announces the pending visible operation of the running thread and lets the scheduler pick
// who goes next. It returns when this thread has been picked to perform the operation.
//
//go:norace
func yield(op int, obj unsafe.Pointer) {
	if !sch.active || sch.cur < 0 || !sch.points[op] {
		return
	}
	if sch.poolOnly != "" && (op == opPoolGet || op == opPoolPut) {
		p := (*Pool)(obj)
		p.register()
		if !containsStr(p.name, sch.poolOnly) {
			return
		}
	}
	me := sch.cur
	t := sch.threads[me]
	t.pendOp, t.pendObj = op, obj
	next := decide(me)
	if next < 0 {
		// deadlock: nobody (including me) can proceed. Record and let this thread go on so that
		// the process can finish and report; the execution is flagged.
		return
	}
	if next != me {
		sch.switches++
		handTo(next)
		waitTurn(me)
	}
	t.steps++
	if sch.keepLog {
		sch.log = append(sch.log, SchedEvent{me, opNames[op]})
	}
	if sch.OnPoint != nil {
		sch.OnPoint(me, op, obj)
	}
}

//go:norace
func enabledThread(t *thread) bool {
	if t.done {
		return false
	}
	switch t.pendOp {
	case opLock:
		m := (*Mutex)(t.pendObj)
		return !m.held
	case opWLock:
		m := (*RWMutex)(t.pendObj)
		return !m.w.held && m.readers == 0
	case opRLock:
		m := (*RWMutex)(t.pendObj)
		return !m.w.held
	}
	return true
}

// decide picks the next thread. Canonical order of alternatives: the running thread first when it
// is still enabled, then the others by ascending id. Switching away from an enabled running thread
// costs one preemption; any other switch is free.
//
//go:norace
func decide(me int) int {
	var en [16]int
	n := 0
	runningEnabled := false
	if me >= 0 && enabledThread(sch.threads[me]) {
		en[n] = me
		n++
		runningEnabled = true
	}
	for _, t := range sch.threads {
		if t.id == me || !enabledThread(t) {
			continue
		}
		if n < len(en) {
			en[n] = t.id
			n++
		}
	}
	if n == 0 {
		for _, t := range sch.threads {
			if !t.done {
				sch.deadlock = fmt.Sprintf("deadlock: thread %d blocked on %s and no thread enabled", t.id, opNames[t.pendOp])
				break
			}
		}
		return -1
	}
	cost := 0
	if runningEnabled {
		cost = 1
	}
	tag := ""
	if drv != nil && drv.Enabled[KSched] && n > 1 {
		if me >= 0 {
			tag = fmt.Sprintf("t%d:%s", me, opNames[sch.threads[me].pendOp])
		} else {
			tag = "begin"
		}
	}
	c := choose(KSched, n, cost, tag)
	return en[c]
}

// CurrentThread returns the id of the running scheduled thread (-1 outside RunThreads).
//
//go:norace
func CurrentThread() int {
	if !sch.active {
		return -1
	}
	return sch.cur
}

// SetOnPoint installs a callback run at every performed scheduling point.
//
//go:norace
func SetOnPoint(f func(tid int, op int, obj unsafe.Pointer)) { sch.OnPoint = f }

// ---------------------------------------------------------------------------------------------

// Mutex models sync.Mutex (sequentially consistent, same happens-before edges).
type Mutex struct {
	held  bool
	owner int
	real  sync.Mutex // used only when no scheduler is active (free-running mode)
}

func (m *Mutex) Lock() {
	if !schedActive() {
		m.real.Lock()
		return
	}
	yield(opLock, unsafe.Pointer(m))
	m.acquire()
	raceAcquire(unsafe.Pointer(m))
}

func (m *Mutex) Unlock() {
	if !schedActive() {
		m.real.Unlock()
		return
	}
	yield(opUnlock, unsafe.Pointer(m))
	raceRelease(unsafe.Pointer(m))
	m.release()
}

func (m *Mutex) TryLock() bool {
	if !schedActive() {
		return m.real.TryLock()
	}
	yield(opUser, nil)
	if m.isHeld() {
		return false
	}
	m.acquire()
	raceAcquire(unsafe.Pointer(m))
	return true
}

//go:norace
func schedActive() bool { return sch.active && sch.cur >= 0 }

//go:norace
func (m *Mutex) isHeld() bool { return m.held }

//go:norace
func (m *Mutex) acquire() {
	if m.held {
		// only reachable after a flagged deadlock
		if sch.deadlock == "" {
			sch.deadlock = "mutex acquired while held"
		}
	}
	m.held = true
	m.owner = sch.cur
}

//go:norace
func (m *Mutex) release() {
	if !m.held {
		panic("sync: unlock of unlocked mutex")
	}
	m.held = false
}

// Value models sync/atomic.Value.
type Value struct {
	v    any
	real sync.Mutex
}

func (v *Value) Load() any {
	if !schedActive() {
		v.real.Lock()
		defer v.real.Unlock()
		return v.v
	}
	yield(opLoad, unsafe.Pointer(v))
	x := v.load()
	raceAcquire(unsafe.Pointer(v))
	return x
}

func (v *Value) Store(x any) {
	if x == nil {
		panic("sync/atomic: store of nil value into Value")
	}
	if !schedActive() {
		v.real.Lock()
		defer v.real.Unlock()
		v.v = x
		return
	}
	yield(opStore, unsafe.Pointer(v))
	raceReleaseMerge(unsafe.Pointer(v))
	v.store(x)
}

func (v *Value) Swap(x any) any {
	old := v.Load()
	v.Store(x)
	return old
}

func (v *Value) CompareAndSwap(old, new any) bool {
	panic("verifrt: atomic.Value.CompareAndSwap is not modelled")
}

//go:norace
func (v *Value) load() any { return v.v }

//go:norace
func (v *Value) store(x any) { v.v = x }

// Reset clears the value (harness only: lets a search start from an empty regexp cache).
//
//go:norace
func (v *Value) Reset() { v.v = nil }

func containsStr(s, sub string) bool {
	for i := 0; i+len(sub) <= len(s); i++ {
		if s[i:i+len(sub)] == sub {
			return true
		}
	}
	return false
}
