package verifrt

import (
	"fmt"
	"reflect"
	"sync"
	"unsafe"
)

var freeRunMu sync.Mutex

// Pool models sync.Pool with the hand-out made an explicit choice: the contract of sync.Pool is
// "Get returns an arbitrary item previously Put, or New()". The free list is a *multiset*: putting
// the same object twice yields two entries, which is exactly the corruption the real pool suffers.
type Pool struct {
	New func() any

	free []poolEntry
	reg  bool
	name string
}

type poolEntry struct {
	obj any
	dig uint64
}

// Pool policies (default answer of Get when no deviation is prescribed).
const (
	PolicyLIFO  = 0 // most recently put object first (what sync.Pool's per-P private slot does)
	PolicyFIFO  = 1 // oldest first
	PolicyFresh = 2 // never reuse: New() every time ("recycling switched off")
)

var (
	poolPolicy   = PolicyLIFO
	allPools     []*Pool
	PoolStats    Stats
	poolClassify = true
)

// Stats are diagnostics only; no oracle looks at them.
type Stats struct {
	Gets, Puts, Reused, Fresh, DoublePuts int
}

//go:norace
func SetPoolPolicy(p int) { poolPolicy = p }

//go:norace
func ResetStats() { PoolStats = Stats{} }

// DropAllPools forgets every registered pool's content (used together with the library's own
// resetPools, which allocates new Pool values).
//
//go:norace
func DropAllPools() {
	for _, p := range allPools {
		p.free = nil
	}
	allPools = allPools[:0]
}

//go:norace
func (p *Pool) register() {
	if p.reg {
		return
	}
	p.reg = true
	allPools = append(allPools, p)
	if p.New != nil {
		// naming a pool by the type it produces costs one allocation per pool, once
		p.name = fmt.Sprintf("%T", p.New())
	}
}

// Put adds x to the pool.
func (p *Pool) Put(x any) {
	if x == nil {
		return
	}
	if isNilPtr(x) {
		// sync.Pool stores a typed nil pointer like any other value; the library relies on
		// "Put(nil validator) is a no-op" only in comments. Keep the real behaviour.
		p.put(x, 0)
		return
	}
	yield(opPoolPut, unsafe.Pointer(p))
	d := digest(x)
	raceReleaseMerge(poolRaceAddr(x))
	if schedActive() {
		markReleased(x, poolRaceAddr(x))
	}
	p.put(x, d)
}

//go:norace
func (p *Pool) put(x any, d uint64) {
	if !schedActive() {
		// free-running mode (auxiliary smoke pass): real mutual exclusion, invisible to the race
		// detector so that it adds no happens-before edge of its own
		raceDisable()
		freeRunMu.Lock()
		defer func() { freeRunMu.Unlock(); raceEnable() }()
	}
	p.register()
	PoolStats.Puts++
	for _, e := range p.free {
		if e.obj == x {
			PoolStats.DoublePuts++
			break
		}
	}
	p.free = append(p.free, poolEntry{x, d})
}

// Get removes an item from the pool (which one is a choice) or calls New.
func (p *Pool) Get() any {
	yield(opPoolGet, unsafe.Pointer(p))
	x := p.get()
	if x != nil {
		if !isNilPtr(x) {
			raceAcquire(poolRaceAddr(x))
		}
		return x
	}
	if p.New != nil {
		return p.New()
	}
	return nil
}

//go:norace
func (p *Pool) get() any {
	if !schedActive() {
		raceDisable()
		freeRunMu.Lock()
		defer func() { freeRunMu.Unlock(); raceEnable() }()
	}
	p.register()
	PoolStats.Gets++
	n := len(p.free)
	if poolPolicy == PolicyFresh || n == 0 {
		PoolStats.Fresh++
		return nil
	}
	// candidate order: default first. Candidates are one representative per digest class
	// (most recent member of the class for LIFO, oldest for FIFO), then "fresh".
	var cand [16]int
	nc := 0
	seen := func(d uint64) bool {
		for i := 0; i < nc; i++ {
			if p.free[cand[i]].dig == d {
				return true
			}
		}
		return false
	}
	if poolPolicy == PolicyLIFO {
		for i := n - 1; i >= 0 && nc < len(cand); i-- {
			if !poolClassify || !seen(p.free[i].dig) {
				cand[nc] = i
				nc++
			}
		}
	} else {
		for i := 0; i < n && nc < len(cand); i++ {
			if !poolClassify || !seen(p.free[i].dig) {
				cand[nc] = i
				nc++
			}
		}
	}
	c := choose(KPool, nc+1, 1, p.name)
	if c == nc {
		PoolStats.Fresh++
		return nil
	}
	idx := cand[c]
	x := p.free[idx].obj
	p.free = append(p.free[:idx], p.free[idx+1:]...)
	PoolStats.Reused++
	return x
}

// FreeDigest returns a canonical description of all free lists (sorted (pool, digest, multiplicity)),
// used as the state key of the explicit-state searches.
//
//go:norace
func FreeDigest() string {
	type k struct {
		name string
		dig  uint64
	}
	var keys []k
	for _, p := range allPools {
		for _, e := range p.free {
			keys = append(keys, k{p.name, e.dig})
		}
	}
	// insertion sort (small)
	for i := 1; i < len(keys); i++ {
		for j := i; j > 0 && (keys[j].name < keys[j-1].name || (keys[j].name == keys[j-1].name && keys[j].dig < keys[j-1].dig)); j-- {
			keys[j], keys[j-1] = keys[j-1], keys[j]
		}
	}
	h := uint64(1469598103934665603)
	for _, e := range keys {
		for i := 0; i < len(e.name); i++ {
			h = (h ^ uint64(e.name[i])) * 1099511628211
		}
		h = (h ^ e.dig) * 1099511628211
	}
	return fmt.Sprintf("%d:%016x", len(keys), h)
}

// HasDuplicates reports whether some pool currently holds the same object twice (two later borrowers
// would then share it). Used to steer the search, never as an oracle.
//
//go:norace
func HasDuplicates() bool {
	for _, p := range allPools {
		for i, e := range p.free {
			for j := 0; j < i; j++ {
				if p.free[j].obj == e.obj {
					return true
				}
			}
		}
	}
	return false
}

// FreeCounts returns, per pool name, the number of free entries and the number of distinct objects.
//
//go:norace
func FreeCounts() map[string][2]int {
	m := map[string][2]int{}
	for _, p := range allPools {
		distinct := 0
		for i, e := range p.free {
			dup := false
			for j := 0; j < i; j++ {
				if p.free[j].obj == e.obj {
					dup = true
					break
				}
			}
			if !dup {
				distinct++
			}
		}
		m[p.name] = [2]int{len(p.free), distinct}
	}
	return m
}

func isNilPtr(x any) bool {
	v := reflect.ValueOf(x)
	return v.Kind() == reflect.Ptr && v.IsNil()
}

var poolRaceHash [128]uint64

func poolRaceAddr(x any) unsafe.Pointer {
	ptr := uintptr((*[2]unsafe.Pointer)(unsafe.Pointer(&x))[1])
	h := uint32((uint64(uint32(ptr)) * 0x85ebca6b) >> 16)
	return unsafe.Pointer(&poolRaceHash[h%uint32(len(poolRaceHash))])
}

// digest is a shallow fingerprint of the stale content of a redeemed object: what the next
// borrower's code can observe before it overwrites it. Two free objects with equal digests are
// interchangeable for the exploration (the next thing that happens to either is the same code
// reading the same stale content).
func digest(x any) uint64 {
	h := uint64(1469598103934665603)
	v := reflect.ValueOf(x)
	if v.Kind() == reflect.Ptr {
		if v.IsNil() {
			return 0
		}
		v = v.Elem()
	}
	digestValue(&h, v, 0)
	return h
}

func mix(h *uint64, x uint64) { *h = (*h ^ x) * 1099511628211 }

func digestValue(h *uint64, v reflect.Value, depth int) {
	switch v.Kind() {
	case reflect.Bool:
		if v.Bool() {
			mix(h, 1)
		} else {
			mix(h, 2)
		}
	case reflect.Int, reflect.Int8, reflect.Int16, reflect.Int32, reflect.Int64:
		mix(h, uint64(v.Int()))
	case reflect.Uint, reflect.Uint8, reflect.Uint16, reflect.Uint32, reflect.Uint64, reflect.Uintptr:
		mix(h, v.Uint())
	case reflect.Float32, reflect.Float64:
		mix(h, uint64(v.Float()*1e6))
	case reflect.String:
		s := v.String()
		mix(h, uint64(len(s)))
		for i := 0; i < len(s); i++ {
			mix(h, uint64(s[i]))
		}
	case reflect.Ptr:
		if v.IsNil() {
			mix(h, 3)
		} else {
			mix(h, 4)
			e := v.Elem()
			k := e.Kind()
			if k != reflect.Struct && k != reflect.Map && k != reflect.Slice && k != reflect.Interface && k != reflect.Ptr {
				digestValue(h, e, depth+1) // pointed-to scalars (bounds, lengths) are stale content too
			}
		}
	case reflect.Interface:
		if v.IsNil() {
			mix(h, 5)
		} else {
			mix(h, 6)
			e := v.Elem()
			switch e.Kind() {
			case reflect.Ptr, reflect.Map, reflect.Slice, reflect.Struct, reflect.Func, reflect.Chan, reflect.Interface:
				if e.Kind() == reflect.Ptr || e.Kind() == reflect.Map || e.Kind() == reflect.Slice {
					if e.IsNil() {
						mix(h, 7)
					}
				}
			default:
				digestValue(h, e, depth+1)
			}
		}
	case reflect.Slice:
		if v.IsNil() {
			mix(h, 8)
		} else {
			mix(h, 9)
			mix(h, uint64(v.Len()))
			if depth < 1 && v.Len() <= 8 {
				for i := 0; i < v.Len(); i++ {
					digestValue(h, v.Index(i), depth+1)
				}
			}
		}
	case reflect.Map:
		if v.IsNil() {
			mix(h, 10)
		} else {
			mix(h, 11)
			mix(h, uint64(v.Len()))
		}
	case reflect.Array:
		for i := 0; i < v.Len(); i++ {
			digestValue(h, v.Index(i), depth)
		}
	case reflect.Struct:
		if depth > 1 {
			mix(h, 12)
			return
		}
		for i := 0; i < v.NumField(); i++ {
			digestValue(h, v.Field(i), depth+1)
		}
	case reflect.Func, reflect.Chan, reflect.UnsafePointer:
		if v.IsNil() {
			mix(h, 13)
		} else {
			mix(h, 14)
		}
	}
}
