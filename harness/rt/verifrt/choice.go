// Package verifrt is the runtime side of the verification harness. It is compiled
// *inside* the go-openapi/validate module (injected with `go build -overlay`) so that
// the rewritten imports of pools.go / rexp.go / options.go can reach it, and it only
// depends on the standard library.
//
// It owns every source of nondeterminism the explorers enumerate:
//   - which free object a Pool.Get hands out                (kind KPool)
//   - which thread runs next at a synchronisation operation (kind KSched)
//   - where a `range` over a map starts                     (kind KMap)
//
// All of them are funnelled through one choice recorder (Choose) so that a single
// stateless, deviation-bounded depth-first search can drive any combination of them.
package verifrt

import "fmt"

// Choice kinds.
const (
	KPool  = 1
	KSched = 2
	KMap   = 3
)

// Point is one choice point met during an execution.
type Point struct {
	Kind   uint8
	N      int    // number of alternatives (>= 2, single-alternative points are not recorded)
	Chosen int    // alternative taken
	Cost0  int    // cost of taking an alternative != 0 (deviation units); 0 means free
	Tag    string // human readable (pool name / thread op / iteration site)
}

// Trace is what one execution leaves behind.
type Trace struct {
	Points   []Point
	Diverged string // non-empty when a prescribed choice could not be honoured (hard harness error)
}

// Driver decides choices: it replays Prefix and then answers with the default (0).
type Driver struct {
	Prefix []int
	// Kinds that are recorded as explorable points. Kinds not enabled always take the default
	// answer and leave no point in the trace.
	Enabled [4]bool
	trace   Trace
	pos     int
	// MaxPoints guards against runaway executions (0 = no limit).
	MaxPoints int
}

var drv *Driver

// Install makes d the active driver (nil uninstalls). Not safe for concurrent use; the harness
// installs a driver before an execution starts and removes it after all threads were joined.
//
//go:norace
func Install(d *Driver) {
	drv = d
	if d != nil {
		d.trace = Trace{}
		d.pos = 0
	}
}

// TraceOf returns the trace recorded so far by d.
//
//go:norace
func (d *Driver) TraceOf() Trace { return d.trace }

// choose is called by the shims. n alternatives, alternative 0 is the default answer.
// cost is the deviation cost of any non-default alternative.
//
//go:norace
func choose(kind uint8, n int, cost int, tag string) int {
	d := drv
	if d == nil || n < 2 || !d.Enabled[kind] {
		return 0
	}
	c := 0
	if d.pos < len(d.Prefix) {
		c = d.Prefix[d.pos]
		if c < 0 || c >= n {
			if d.trace.Diverged == "" {
				d.trace.Diverged = fmt.Sprintf("choice %d at point %d (%s) out of range n=%d", c, d.pos, tag, n)
			}
			c = 0
		}
	}
	d.pos++
	if d.MaxPoints == 0 || len(d.trace.Points) < d.MaxPoints {
		d.trace.Points = append(d.trace.Points, Point{Kind: kind, N: n, Chosen: c, Cost0: cost, Tag: tag})
	}
	return c
}

// Explore is the stateless deviation-bounded DFS of the brief. run executes the system once under
// the given driver prefix and returns the trace; check is called once per execution (it may return
// false to stop the whole search). Bound is the total deviation cost allowed. It returns the number
// of executions. The search is exhaustive for the bound unless limit (>0) executions were reached,
// in which case capped is true.
func Explore(bound int, limit int, run func(prefix []int) Trace, check func(prefix []int, t Trace) bool) (execs int, capped bool, err error) {
	return ExploreSharded(bound, limit, 0, 1, run, check)
}

// ExploreSharded splits the search over `shards` processes: the deviation-free execution is run by
// every shard, executions reached through free (cost 0) deviations only are run by every shard too; the n-th first *costly* deviation (in DFS order) belongs to shard n % shards.
func ExploreSharded(bound int, limit int, shard, shards int, run func(prefix []int) Trace, check func(prefix []int, t Trace) bool) (execs int, capped bool, err error) {
	var rec func(prefix []int) bool
	topAlt := 0 // ordinal of first-level deviations: the unit of sharding
	rec = func(prefix []int) bool {
		if limit > 0 && execs >= limit {
			capped = true
			return false
		}
		t := run(prefix)
		execs++
		if t.Diverged != "" {
			err = fmt.Errorf("replay diverged: %s (prefix %v)", t.Diverged, prefix)
			return false
		}
		if len(t.Points) < len(prefix) {
			err = fmt.Errorf("replay diverged: prefix of %d choices but only %d points met", len(prefix), len(t.Points))
			return false
		}
		for i := range prefix {
			if t.Points[i].Chosen != prefix[i] {
				err = fmt.Errorf("replay diverged at point %d", i)
				return false
			}
		}
		if !check(prefix, t) {
			return false
		}
		cost := 0
		for i := 0; i < len(prefix); i++ {
			if t.Points[i].Chosen != 0 {
				cost += t.Points[i].Cost0
			}
		}
		for i := len(prefix); i < len(t.Points); i++ {
			p := t.Points[i]
			if cost+p.Cost0 > bound {
				continue
			}
			for alt := 1; alt < p.N; alt++ {
				if cost == 0 && p.Cost0 > 0 && shards > 1 {
					// first costly deviation of this branch: the unit of sharding (free deviations
					// above it, e.g. which thread starts, are followed by every shard)
					topAlt++
					if (topAlt-1)%shards != shard {
						continue
					}
				}
				np := make([]int, i+1)
				for j := 0; j < i; j++ {
					np[j] = t.Points[j].Chosen
				}
				np[i] = alt
				if !rec(np) {
					return false
				}
			}
		}
		return true
	}
	rec(nil)
	return execs, capped, err
}
