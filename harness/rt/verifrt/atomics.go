package verifrt

import (
	"sync"
	"sync/atomic"
	"unsafe"
)

// The remaining sync/atomic and sync primitives a change to the library might start using. The typed
// atomics wrap the real ones (which carry their own race-detector edges) behind a scheduling point;
// RWMutex and Once are modelled so that a descheduled holder cannot block the process for real.

type Pointer[T any] struct{ v atomic.Pointer[T] }

func (x *Pointer[T]) Load() *T { yield(opLoad, unsafe.Pointer(x)); return x.v.Load() }
func (x *Pointer[T]) Store(p *T) {
	yield(opStore, unsafe.Pointer(x))
	x.v.Store(p)
}
func (x *Pointer[T]) Swap(p *T) *T { yield(opStore, unsafe.Pointer(x)); return x.v.Swap(p) }
func (x *Pointer[T]) CompareAndSwap(old, new *T) bool {
	yield(opStore, unsafe.Pointer(x))
	return x.v.CompareAndSwap(old, new)
}

type Bool struct{ v atomic.Bool }

func (x *Bool) Load() bool       { yield(opLoad, unsafe.Pointer(x)); return x.v.Load() }
func (x *Bool) Store(b bool)     { yield(opStore, unsafe.Pointer(x)); x.v.Store(b) }
func (x *Bool) Swap(b bool) bool { yield(opStore, unsafe.Pointer(x)); return x.v.Swap(b) }
func (x *Bool) CompareAndSwap(o, n bool) bool {
	yield(opStore, unsafe.Pointer(x))
	return x.v.CompareAndSwap(o, n)
}

type Int32 struct{ v atomic.Int32 }

func (x *Int32) Load() int32       { yield(opLoad, unsafe.Pointer(x)); return x.v.Load() }
func (x *Int32) Store(n int32)     { yield(opStore, unsafe.Pointer(x)); x.v.Store(n) }
func (x *Int32) Add(n int32) int32 { yield(opStore, unsafe.Pointer(x)); return x.v.Add(n) }
func (x *Int32) Swap(n int32) int32 {
	yield(opStore, unsafe.Pointer(x))
	return x.v.Swap(n)
}
func (x *Int32) CompareAndSwap(o, n int32) bool {
	yield(opStore, unsafe.Pointer(x))
	return x.v.CompareAndSwap(o, n)
}

type Int64 struct{ v atomic.Int64 }

func (x *Int64) Load() int64       { yield(opLoad, unsafe.Pointer(x)); return x.v.Load() }
func (x *Int64) Store(n int64)     { yield(opStore, unsafe.Pointer(x)); x.v.Store(n) }
func (x *Int64) Add(n int64) int64 { yield(opStore, unsafe.Pointer(x)); return x.v.Add(n) }
func (x *Int64) Swap(n int64) int64 {
	yield(opStore, unsafe.Pointer(x))
	return x.v.Swap(n)
}
func (x *Int64) CompareAndSwap(o, n int64) bool {
	yield(opStore, unsafe.Pointer(x))
	return x.v.CompareAndSwap(o, n)
}

type Uint32 struct{ v atomic.Uint32 }

func (x *Uint32) Load() uint32        { yield(opLoad, unsafe.Pointer(x)); return x.v.Load() }
func (x *Uint32) Store(n uint32)      { yield(opStore, unsafe.Pointer(x)); x.v.Store(n) }
func (x *Uint32) Add(n uint32) uint32 { yield(opStore, unsafe.Pointer(x)); return x.v.Add(n) }
func (x *Uint32) Swap(n uint32) uint32 {
	yield(opStore, unsafe.Pointer(x))
	return x.v.Swap(n)
}
func (x *Uint32) CompareAndSwap(o, n uint32) bool {
	yield(opStore, unsafe.Pointer(x))
	return x.v.CompareAndSwap(o, n)
}

type Uint64 struct{ v atomic.Uint64 }

func (x *Uint64) Load() uint64        { yield(opLoad, unsafe.Pointer(x)); return x.v.Load() }
func (x *Uint64) Store(n uint64)      { yield(opStore, unsafe.Pointer(x)); x.v.Store(n) }
func (x *Uint64) Add(n uint64) uint64 { yield(opStore, unsafe.Pointer(x)); return x.v.Add(n) }
func (x *Uint64) Swap(n uint64) uint64 {
	yield(opStore, unsafe.Pointer(x))
	return x.v.Swap(n)
}
func (x *Uint64) CompareAndSwap(o, n uint64) bool {
	yield(opStore, unsafe.Pointer(x))
	return x.v.CompareAndSwap(o, n)
}

// AtomicPoint is the scheduling point placed before the function forms (atomic.AddInt32(&x, 1), …).
func AtomicPoint(load bool, addr unsafe.Pointer) {
	if load {
		yield(opLoad, addr)
	} else {
		yield(opStore, addr)
	}
}

// ---------------------------------------------------------------------------------------------

// RWMutex models sync.RWMutex (writer-exclusive, any number of readers; no fairness).
type RWMutex struct {
	w       Mutex
	readers int
	real    sync.RWMutex
}

func (m *RWMutex) Lock() {
	if !schedActive() {
		m.real.Lock()
		return
	}
	// blocking, not spinning: the thread is not enabled while somebody writes or reads, so the
	// scheduler has to run the others (a spin loop of scheduling points would never end under a
	// non-preemptive default)
	yield(opWLock, unsafe.Pointer(m))
	m.w.acquire()
	raceAcquire(unsafe.Pointer(&m.w))
	raceAcquire(unsafe.Pointer(&m.readers))
}

func (m *RWMutex) Unlock() {
	if !schedActive() {
		m.real.Unlock()
		return
	}
	yield(opUnlock, unsafe.Pointer(m))
	raceRelease(unsafe.Pointer(&m.w))
	m.w.release()
}

func (m *RWMutex) RLock() {
	if !schedActive() {
		m.real.RLock()
		return
	}
	yield(opRLock, unsafe.Pointer(m))
	m.addReader(1)
	raceAcquire(unsafe.Pointer(&m.w))
}

func (m *RWMutex) RUnlock() {
	if !schedActive() {
		m.real.RUnlock()
		return
	}
	yield(opUnlock, unsafe.Pointer(m))
	raceReleaseMerge(unsafe.Pointer(&m.readers))
	m.addReader(-1)
}

func (m *RWMutex) TryLock() bool        { m.Lock(); return true }
func (m *RWMutex) TryRLock() bool       { m.RLock(); return true }
func (m *RWMutex) RLocker() sync.Locker { return rlocker{m} }

type rlocker struct{ m *RWMutex }

func (r rlocker) Lock()   { r.m.RLock() }
func (r rlocker) Unlock() { r.m.RUnlock() }

//go:norace
func (m *RWMutex) nreaders() int { return m.readers }

//go:norace
func (m *RWMutex) addReader(d int) { m.readers += d }

// Once models sync.Once.
type Once struct {
	m    Mutex
	done bool
}

func (o *Once) Do(f func()) {
	o.m.Lock()
	defer o.m.Unlock()
	if !o.isDone() {
		defer o.setDone()
		f()
	}
}

//go:norace
func (o *Once) isDone() bool { return o.done }

//go:norace
func (o *Once) setDone() { o.done = true }

// Map wraps sync.Map (non-blocking) behind scheduling points.
type Map struct{ m sync.Map }

func (x *Map) Load(k any) (any, bool) { yield(opLoad, unsafe.Pointer(x)); return x.m.Load(k) }
func (x *Map) Store(k, v any)         { yield(opStore, unsafe.Pointer(x)); x.m.Store(k, v) }
func (x *Map) LoadOrStore(k, v any) (any, bool) {
	yield(opStore, unsafe.Pointer(x))
	return x.m.LoadOrStore(k, v)
}
func (x *Map) LoadAndDelete(k any) (any, bool) {
	yield(opStore, unsafe.Pointer(x))
	return x.m.LoadAndDelete(k)
}
func (x *Map) Delete(k any)                { yield(opStore, unsafe.Pointer(x)); x.m.Delete(k) }
func (x *Map) Range(f func(k, v any) bool) { yield(opLoad, unsafe.Pointer(x)); x.m.Range(f) }
func (x *Map) Swap(k, v any) (any, bool)   { yield(opStore, unsafe.Pointer(x)); return x.m.Swap(k, v) }
func (x *Map) CompareAndSwap(k, o, n any) bool {
	yield(opStore, unsafe.Pointer(x))
	return x.m.CompareAndSwap(k, o, n)
}
func (x *Map) CompareAndDelete(k, o any) bool {
	yield(opStore, unsafe.Pointer(x))
	return x.m.CompareAndDelete(k, o)
}
