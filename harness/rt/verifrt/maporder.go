package verifrt

import (
	"runtime"
	"strings"
	_ "unsafe"
)

// The patched runtime (see mkoverlay) calls the function installed here from mapiterinit for every
// map with >= 2 entries; it receives the entry count and B (log2 of the bucket count) and returns the
// word from which the start bucket and the intra-bucket offset are derived (r & mask(B), r>>B & 7).
//
// rtMapIterFn is the variable of that name added to package runtime by the overlay.
//
//go:linkname rtMapIterFn runtime.verifMapIterFn
var rtMapIterFn func(count int, b uint8) uint64

// MapPolicy is the uniform policy: every iteration starts at offset MapPolicy (and bucket MapPolicy).
var (
	mapPolicy   uint64
	mapSites    bool // when true, iteration sites inside package validate are choice points
	MapIterSeen int  // iterations over maps with >= 2 entries (diagnostic)
	mapSiteOnly string
)

//go:norace
func SetMapPolicy(k int) { mapPolicy = uint64(k) }

// SetMapSites makes each map iteration whose first caller frame in package validate matches filter
// (substring of the function name, "" = any validate function) an explorable choice point with 8
// alternatives (rotation by k of the policy start).
//
//go:norace
func SetMapSites(on bool, filter string) { mapSites, mapSiteOnly = on, filter }

//go:norace
func mapIterHook(count int, b uint8) uint64 {
	MapIterSeen++
	k := mapPolicy
	if mapSites && drv != nil && drv.Enabled[KMap] {
		if site := validateSite(); site != "" {
			n := 8
			if count < 8 && b == 0 {
				// rotations beyond the populated slots repeat earlier ones only partially
				// (empty slots are skipped), keep all 8 to stay faithful to the runtime
				n = 8
			}
			c := choose(KMap, n, 1, site)
			k = (mapPolicy + uint64(c)) & 7
		}
	}
	// offset = r >> B & 7 ; start bucket = r & (1<<B - 1)
	return (k << b) | (k & ((1 << b) - 1))
}

var pcSite = make([]pcEntry, 0, 256)

type pcEntry struct {
	pc   uintptr
	site string
}

//go:norace
func validateSite() string {
	var pcs [24]uintptr
	n := runtime.Callers(3, pcs[:])
	for i := 0; i < n; i++ {
		pc := pcs[i]
		found := false
		site := ""
		for _, e := range pcSite {
			if e.pc == pc {
				found, site = true, e.site
				break
			}
		}
		if !found {
			if f := runtime.FuncForPC(pc - 1); f != nil {
				name := f.Name()
				if strings.HasPrefix(name, "github.com/go-openapi/validate.") && !strings.Contains(name, "/verifrt") {
					site = strings.TrimPrefix(name, "github.com/go-openapi/validate.")
				}
			}
			pcSite = append(pcSite, pcEntry{pc, site})
		}
		if site != "" {
			if mapSiteOnly == "" {
				return site
			}
			for _, f := range strings.Split(mapSiteOnly, "|") {
				if strings.Contains(site, f) {
					return site
				}
			}
			return ""
		}
	}
	return ""
}

func init() {
	rtMapIterFn = mapIterHook
}
