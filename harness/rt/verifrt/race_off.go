//go:build !race

package verifrt

import "unsafe"

// RaceEnabled reports whether the binary was built with -race.
const RaceEnabled = false

func raceAcquire(p unsafe.Pointer)      {}
func raceRelease(p unsafe.Pointer)      {}
func raceReleaseMerge(p unsafe.Pointer) {}
func raceDisable()                      {}
func raceEnable()                       {}

// RaceErrors returns the number of races reported so far.
func RaceErrors() int { return 0 }

func markReleased(x any, sync unsafe.Pointer) {}
