// Package num is the reference model of property C13: minimum, maximum and multipleOf decided by exact
// rational arithmetic on the mathematical values. It is written from the JSON-Schema definitions
// (draft 4, sections 5.1.1 - 5.1.3), not from the library:
//
//	maximum          violated  <=>  value >  bound
//	exclusiveMaximum violated  <=>  value >= bound
//	minimum          violated  <=>  value <  bound
//	exclusiveMinimum violated  <=>  value <= bound
//	multipleOf       violated  <=>  value / factor is not an integer   (factor > 0)
//
// A number is identified with its DECIMAL rendering: the float64 nearest to 0.1 means one tenth, because
// that is what a schema author who writes 0.1 means. Floats are therefore converted through their shortest
// round-tripping decimal text (strconv 'g', -1), integers and json.Number through their digits.
package num

import (
	"encoding/json"
	"math/big"
	"reflect"
	"strconv"
	"strings"
)

// FromDecimal parses a plain decimal or scientific literal exactly.
func FromDecimal(s string) (*big.Rat, bool) {
	if s == "" || strings.ContainsAny(s, "/ _xXpP") {
		return nil, false
	}
	return new(big.Rat).SetString(s)
}

// Of converts any Go numeric carrier to the exact rational of its decimal rendering.
func Of(v any) (*big.Rat, bool) {
	switch n := v.(type) {
	case json.Number:
		return FromDecimal(string(n))
	case float64:
		return FromDecimal(strconv.FormatFloat(n, 'g', -1, 64))
	case float32:
		return FromDecimal(strconv.FormatFloat(float64(n), 'g', -1, 32))
	case nil:
		return nil, false
	}
	rv := reflect.ValueOf(v)
	switch rv.Kind() {
	case reflect.Int, reflect.Int8, reflect.Int16, reflect.Int32, reflect.Int64:
		return new(big.Rat).SetInt64(rv.Int()), true
	case reflect.Uint, reflect.Uint8, reflect.Uint16, reflect.Uint32, reflect.Uint64, reflect.Uintptr:
		return new(big.Rat).SetInt(new(big.Int).SetUint64(rv.Uint())), true
	}
	return nil, false
}

// Max reports whether value violates the maximum bound.
func Max(value, bound *big.Rat, exclusive bool) bool {
	c := value.Cmp(bound)
	return c > 0 || (exclusive && c == 0)
}

// Min reports whether value violates the minimum bound.
func Min(value, bound *big.Rat, exclusive bool) bool {
	c := value.Cmp(bound)
	return c < 0 || (exclusive && c == 0)
}

// MultipleOf reports whether value is NOT an integral multiple of factor. ok is false when the factor is
// not strictly positive (the keyword is then ill-formed and the reference has no opinion).
func MultipleOf(value, factor *big.Rat) (violated, ok bool) {
	if factor.Sign() <= 0 {
		return false, false
	}
	q := new(big.Rat).Quo(value, factor)
	return !q.IsInt(), true
}

// SignificantDigits counts the significant decimal digits of a plain decimal literal (no exponent):
// digits between the first and the last non-zero digit, the decimal point ignored.
func SignificantDigits(dec string) int {
	s := strings.TrimLeft(dec, "+-")
	s = strings.Replace(s, ".", "", 1)
	s = strings.TrimLeft(s, "0")
	// trailing zeros are not significant either: 1000000 has one significant digit, 2.50 has two
	s = strings.TrimRight(s, "0")
	return len(s)
}

// FractionalDigits counts the digits after the decimal point of a plain decimal literal, trailing zeros
// not counted.
func FractionalDigits(dec string) int {
	i := strings.IndexByte(dec, '.')
	if i < 0 {
		return 0
	}
	return len(strings.TrimRight(dec[i+1:], "0"))
}
