// Package swagger20 provides the official Swagger 2.0 JSON schema as a self-contained draft-4 schema
// for the reference evaluator: the two files are verbatim copies of the ones embedded in
// github.com/go-openapi/spec v0.21.0 (schemas/v2/schema.json and schemas/jsonschema-draft-04.json);
// the draft-04 meta-schema is placed under #/definitions/__draft04 and the references are rewritten
// accordingly, so that only local references remain.
package swagger20

import (
	_ "embed"
	"encoding/json"
	"strings"
)

//go:embed swagger-2.0-schema.json
var swaggerJSON string

//go:embed jsonschema-draft-04.json
var draft04JSON string

const remote = "http://json-schema.org/draft-04/schema#"
const local = "#/definitions/__draft04"

func decode(s string) map[string]any {
	d := json.NewDecoder(strings.NewReader(s))
	d.UseNumber()
	var m map[string]any
	if err := d.Decode(&m); err != nil {
		panic(err)
	}
	return m
}

func rewrite(v any, f func(ref string) string) {
	switch t := v.(type) {
	case map[string]any:
		for k, x := range t {
			if k == "$ref" {
				if s, ok := x.(string); ok {
					t[k] = f(s)
				}
				continue
			}
			rewrite(x, f)
		}
	case []any:
		for _, x := range t {
			rewrite(x, f)
		}
	}
}

// Schema returns a fresh copy of the self-contained Swagger 2.0 schema.
func Schema() map[string]any {
	sw := decode(swaggerJSON)
	d4 := decode(draft04JSON)
	delete(d4, "id")
	delete(d4, "$schema")
	rewrite(d4, func(r string) string {
		if strings.HasPrefix(r, "#") {
			return local + r[1:]
		}
		return r
	})
	rewrite(sw, func(r string) string {
		if strings.HasPrefix(r, remote) {
			return local + strings.TrimPrefix(r, remote)
		}
		return r
	})
	delete(sw, "id")
	defs := sw["definitions"].(map[string]any)
	defs["__draft04"] = d4
	return sw
}

// Text returns the schema as JSON text.
func Text() string {
	b, _ := json.Marshal(Schema())
	return string(b)
}
