// Package swaggerrules is a second, deliberately boring implementation of the documented extra rules
// of Swagger 2.0 specification validation (the ones the JSON schema of Swagger 2.0 cannot express).
// It works on the generic JSON of a document and is written from the Swagger 2.0 specification and the
// rule list of DESIGN.md §5 C03, one function per rule. It is only meant for documents in the range of
// the C03 grammar (local references, no defaults/examples, no x- extensions).
package swaggerrules

import (
	"regexp"
	"sort"
	"strings"
)

type obj = map[string]any

// Rule is one documented rule: Holds reports whether the document satisfies it.
type Rule struct {
	N     int
	Name  string
	Holds func(doc obj) bool
}

// Rules lists the 14 rules in the order of DESIGN.md.
var Rules = []Rule{
	{1, "non-empty operation ids are unique", UniqueOperationIDs},
	{2, "every placeholder of a path template has a path parameter", PlaceholdersDeclared},
	{3, "every path parameter is required", PathParamsRequired},
	{4, "every path parameter names a placeholder of its path", PathParamsInTemplate},
	{5, "placeholders of one path are pairwise distinct and non-empty", PlaceholdersDistinct},
	{6, "(in, name) is unique within one parameter list", UniqueParamsPerList},
	{7, "at most one body parameter", AtMostOneBody},
	{8, "no body parameter next to formData", NoBodyWithFormData},
	{9, "arrays declare items", ArraysHaveItems},
	{10, "required properties of a definition are defined", RequiredDefined},
	{11, "every $ref resolves", RefsResolve},
	{12, "no duplicate inherited property, no circular ancestry", AncestryClean},
	{13, "no two paths with a common method overlap", NoOverlappingPaths},
	{14, "every pattern compiles", PatternsCompile},
}

// Broken returns the numbers of the rules the document breaks. With strictPaths false, rule 13 is not
// demanded (the library's StrictPathParamUniqueness option).
func Broken(doc obj, strictPaths bool) []int {
	var out []int
	for _, r := range Rules {
		if r.N == 13 && !strictPaths {
			continue
		}
		if !r.Holds(doc) {
			out = append(out, r.N)
		}
	}
	return out
}

// ---- generic JSON helpers ---------------------------------------------------------------------

func asObj(v any) obj    { m, _ := v.(map[string]any); return m }
func asList(v any) []any { l, _ := v.([]any); return l }
func asStr(v any) string { s, _ := v.(string); return s }

func keys(m obj) []string {
	out := make([]string, 0, len(m))
	for k := range m {
		out = append(out, k)
	}
	sort.Strings(out)
	return out
}

// pointer resolves a local reference "#/a/b/c" in the document.
func pointer(doc obj, ref string) (any, bool) {
	if !strings.HasPrefix(ref, "#/") {
		return nil, false
	}
	var cur any = doc
	for _, tok := range strings.Split(ref[2:], "/") {
		tok = strings.ReplaceAll(strings.ReplaceAll(tok, "~1", "/"), "~0", "~")
		m := asObj(cur)
		if m == nil {
			return nil, false
		}
		next, ok := m[tok]
		if !ok {
			return nil, false
		}
		cur = next
	}
	return cur, true
}

// deref follows "$ref" members until an object without one is reached; nil when a reference dangles
// or the chain does not end.
func deref(doc obj, v any) obj {
	m := asObj(v)
	for i := 0; m != nil && i < 32; i++ {
		r, has := m["$ref"]
		if !has {
			return m
		}
		t, ok := pointer(doc, asStr(r))
		if !ok {
			return nil
		}
		m = asObj(t)
	}
	return nil
}

// ---- the structure of a Swagger document --------------------------------------------------------

var methods = []string{"get", "put", "post", "delete", "options", "head", "patch"}

type operation struct {
	path, method string
	item, op     obj
}

func operations(doc obj) []operation {
	var out []operation
	paths := asObj(doc["paths"])
	for _, p := range keys(paths) {
		if !strings.HasPrefix(p, "/") {
			continue
		}
		item := asObj(paths[p])
		for _, m := range methods {
			if op := asObj(item[m]); op != nil {
				out = append(out, operation{p, m, item, op})
			}
		}
	}
	return out
}

// params resolves a parameter list; entries whose reference dangles are dropped (rule 11 reports them).
func params(doc obj, list any) []obj {
	var out []obj
	for _, e := range asList(list) {
		if p := deref(doc, e); p != nil {
			out = append(out, p)
		}
	}
	return out
}

func paramKey(p obj) string { return asStr(p["in"]) + "\x00" + asStr(p["name"]) }

// effective is the parameter set of an operation: the path item's parameters, overridden by the
// operation's own parameters of the same (in, name).
func effective(doc obj, o operation) []obj {
	var order []string
	byKey := map[string]obj{}
	for _, list := range []any{o.item["parameters"], o.op["parameters"]} {
		for _, p := range params(doc, list) {
			k := paramKey(p)
			if _, seen := byKey[k]; !seen {
				order = append(order, k)
			}
			byKey[k] = p
		}
	}
	out := make([]obj, 0, len(order))
	for _, k := range order {
		out = append(out, byKey[k])
	}
	return out
}

// parameterLists returns every parameter list of the document (path-item level and operation level).
func parameterLists(doc obj) []any {
	var out []any
	paths := asObj(doc["paths"])
	for _, p := range keys(paths) {
		item := asObj(paths[p])
		if l, ok := item["parameters"]; ok {
			out = append(out, l)
		}
		for _, m := range methods {
			if l, ok := asObj(item[m])["parameters"]; ok {
				out = append(out, l)
			}
		}
	}
	return out
}

// placeholders returns the names between braces of a path template, in order ("" for "{}").
func placeholders(path string) []string {
	var out []string
	for {
		i := strings.Index(path, "{")
		if i < 0 {
			return out
		}
		j := strings.Index(path[i:], "}")
		if j < 0 {
			return out
		}
		out = append(out, path[i+1:i+j])
		path = path[i+j+1:]
	}
}

// responses returns the resolved responses of an operation.
func responses(doc obj, op obj) []obj {
	var out []obj
	rs := asObj(op["responses"])
	for _, code := range keys(rs) {
		if strings.HasPrefix(code, "x-") {
			continue
		}
		if r := deref(doc, rs[code]); r != nil {
			out = append(out, r)
		}
	}
	return out
}

// ---- rule 1 ------------------------------------------------------------------------------------

func UniqueOperationIDs(doc obj) bool {
	seen := map[string]bool{}
	for _, o := range operations(doc) {
		id := asStr(o.op["operationId"])
		if id == "" {
			continue
		}
		if seen[id] {
			return false
		}
		seen[id] = true
	}
	return true
}

// ---- rules 2-5: path template against path parameters ------------------------------------------

func pathParamNames(doc obj, o operation) map[string]bool {
	names := map[string]bool{}
	for _, p := range effective(doc, o) {
		if asStr(p["in"]) == "path" {
			names[asStr(p["name"])] = true
		}
	}
	return names
}

func PlaceholdersDeclared(doc obj) bool {
	for _, o := range operations(doc) {
		declared := pathParamNames(doc, o)
		for _, ph := range placeholders(o.path) {
			if ph != "" && !declared[ph] {
				return false
			}
		}
	}
	return true
}

func PathParamsRequired(doc obj) bool {
	ok := func(p obj) bool { return asStr(p["in"]) != "path" || p["required"] == true }
	for _, l := range parameterLists(doc) {
		for _, p := range params(doc, l) {
			if !ok(p) {
				return false
			}
		}
	}
	shared := asObj(doc["parameters"])
	for _, k := range keys(shared) {
		if p := asObj(shared[k]); p != nil && !ok(p) {
			return false
		}
	}
	return true
}

func PathParamsInTemplate(doc obj) bool {
	for _, o := range operations(doc) {
		inTemplate := map[string]bool{}
		for _, ph := range placeholders(o.path) {
			inTemplate[ph] = true
		}
		for name := range pathParamNames(doc, o) {
			if !inTemplate[name] {
				return false
			}
		}
	}
	return true
}

func PlaceholdersDistinct(doc obj) bool {
	for _, p := range keys(asObj(doc["paths"])) {
		seen := map[string]bool{}
		for _, ph := range placeholders(p) {
			if ph == "" || seen[ph] {
				return false
			}
			seen[ph] = true
		}
	}
	return true
}

// ---- rules 6-8: parameter lists ----------------------------------------------------------------

func UniqueParamsPerList(doc obj) bool {
	for _, l := range parameterLists(doc) {
		seen := map[string]bool{}
		for _, p := range params(doc, l) {
			k := paramKey(p)
			if seen[k] {
				return false
			}
			seen[k] = true
		}
	}
	return true
}

func count(doc obj, o operation, in string) int {
	n := 0
	for _, p := range effective(doc, o) {
		if asStr(p["in"]) == in {
			n++
		}
	}
	return n
}

func AtMostOneBody(doc obj) bool {
	for _, o := range operations(doc) {
		if count(doc, o, "body") > 1 {
			return false
		}
	}
	return true
}

func NoBodyWithFormData(doc obj) bool {
	for _, o := range operations(doc) {
		if count(doc, o, "body") > 0 && count(doc, o, "formData") > 0 {
			return false
		}
	}
	return true
}

// ---- rule 9: arrays declare items --------------------------------------------------------------

func isArray(t any) bool {
	if asStr(t) == "array" {
		return true
	}
	for _, e := range asList(t) {
		if asStr(e) == "array" {
			return true
		}
	}
	return false
}

// simpleArrayOK covers parameters, headers and their items (the "simple schema" of Swagger 2.0).
func simpleArrayOK(m obj) bool {
	for m != nil && isArray(m["type"]) {
		items := asObj(m["items"])
		if items == nil {
			return false
		}
		m = items
	}
	return true
}

// schemaArrayOK covers a body or response schema and the chain of its items.
func schemaArrayOK(doc obj, v any) bool {
	for depth := 0; depth < 32; depth++ {
		s := deref(doc, v)
		if s == nil || !isArray(s["type"]) {
			return true
		}
		switch it := s["items"].(type) {
		case map[string]any:
			v = it
		case []any:
			return len(it) > 0
		default:
			return false
		}
	}
	return true
}

func ArraysHaveItems(doc obj) bool {
	for _, o := range operations(doc) {
		for _, p := range effective(doc, o) {
			if asStr(p["in"]) == "body" {
				if !schemaArrayOK(doc, p["schema"]) {
					return false
				}
			} else if !simpleArrayOK(p) {
				return false
			}
		}
		for _, r := range responses(doc, o.op) {
			hs := asObj(r["headers"])
			for _, h := range keys(hs) {
				if !simpleArrayOK(asObj(hs[h])) {
					return false
				}
			}
			if s, ok := r["schema"]; ok && !schemaArrayOK(doc, s) {
				return false
			}
		}
	}
	return true
}

// ---- rule 10: required names are defined (top-level definitions) ---------------------------------

func defines(s obj, name string) bool {
	for depth := 0; s != nil && depth < 32; depth++ {
		if _, ok := asObj(s["properties"])[name]; ok {
			return true
		}
		ap, has := s["additionalProperties"]
		if !has {
			return false
		}
		if b, isBool := ap.(bool); isBool {
			return b
		}
		s = asObj(ap) // a schema: it has to define the name itself
	}
	return false
}

func RequiredDefined(doc obj) bool {
	defs := asObj(doc["definitions"])
	for _, d := range keys(defs) {
		s := asObj(defs[d])
		for _, name := range asList(s["required"]) {
			if !defines(s, asStr(name)) {
				return false
			}
		}
	}
	return true
}

// ---- rule 11: references resolve ----------------------------------------------------------------

func RefsResolve(doc obj) bool {
	ok := true
	var walk func(v any)
	walk = func(v any) {
		switch t := v.(type) {
		case map[string]any:
			if r, has := t["$ref"]; has {
				if s, isStr := r.(string); isStr {
					if _, found := pointer(doc, s); !found {
						ok = false
					}
				}
			}
			for _, k := range keys(t) {
				walk(t[k])
			}
		case []any:
			for _, e := range t {
				walk(e)
			}
		}
	}
	walk(doc)
	return ok
}

// ---- rule 12: allOf ancestry -------------------------------------------------------------------

const defPrefix = "#/definitions/"

// declared collects, with multiplicity, the property names a schema declares itself and inherits
// through allOf; parents lists the definitions reached through allOf references.
func declared(doc obj, s obj, visiting map[string]bool, names map[string]int, parents map[string]bool) {
	if s == nil {
		return
	}
	if r, has := s["$ref"]; has {
		ref := asStr(r)
		if !strings.HasPrefix(ref, defPrefix) {
			return
		}
		parents[ref] = true
		if visiting[ref] {
			return // circular: reported through parents
		}
		t, ok := pointer(doc, ref)
		if !ok {
			return
		}
		visiting[ref] = true
		declared(doc, asObj(t), visiting, names, parents)
		delete(visiting, ref)
		return
	}
	for _, p := range keys(asObj(s["properties"])) {
		names[p]++
	}
	for _, m := range asList(s["allOf"]) {
		declared(doc, asObj(m), visiting, names, parents)
	}
}

func AncestryClean(doc obj) bool {
	defs := asObj(doc["definitions"])
	for _, d := range keys(defs) {
		s := asObj(defs[d])
		if len(asList(s["allOf"])) == 0 {
			continue
		}
		self := defPrefix + d
		names, parents := map[string]int{}, map[string]bool{}
		declared(doc, s, map[string]bool{self: true}, names, parents)
		if parents[self] {
			return false // its own ancestor
		}
		for _, n := range names {
			if n > 1 {
				return false
			}
		}
	}
	return true
}

// ---- rule 13: overlapping paths -----------------------------------------------------------------

func NoOverlappingPaths(doc obj) bool {
	seen := map[string]bool{}
	for _, o := range operations(doc) {
		shape := o.path
		for _, ph := range placeholders(o.path) {
			if ph != "" {
				shape = strings.Replace(shape, "{"+ph+"}", "\x00", 1)
			}
		}
		k := o.method + " " + shape
		if seen[k] {
			return false
		}
		seen[k] = true
	}
	return true
}

// ---- rule 14: patterns -------------------------------------------------------------------------

func PatternsCompile(doc obj) bool {
	ok := true
	var walk func(v any)
	walk = func(v any) {
		switch t := v.(type) {
		case map[string]any:
			if p, isStr := t["pattern"].(string); isStr {
				if _, err := regexp.Compile(p); err != nil {
					ok = false
				}
			}
			for _, k := range keys(t) {
				walk(t[k])
			}
		case []any:
			for _, e := range t {
				walk(e)
			}
		}
	}
	walk(doc)
	return ok
}
