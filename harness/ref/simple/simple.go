// Package simple is the reference model of the Swagger 2.0 "simple schema": the restricted schema
// that describes non-body parameters, response headers and their items (Swagger 2.0 specification,
// "Parameter Object", "Header Object", "Items Object", which defer to JSON-Schema validation
// draft 4 for the meaning of each keyword).
//
// It is written from the specification and from the statement of property C16, not from the
// library: plain, slow and obvious. A Go value is valid against a definition exactly when it has
// the declared type and meets every declared constraint, at every nesting level of its items.
//
//	type      Go values that have it
//	string    a Go string
//	boolean   a Go bool
//	integer   any Go integer kind; a float kind holding an integral value
//	number    every Go numeric kind
//	array     a typed slice (no nil element)
//
// A keyword constrains only the values of the kind it speaks about (maximum says nothing about a
// string, maxLength nothing about a number: JSON-Schema validation §5), which is immaterial for a
// value that must have the declared type anyway but keeps the model total.
//
// Numbers are compared exactly: every Go number and every bound becomes a math/big.Rat built from
// its shortest decimal rendering (the number a JSON document would carry for it).
package simple

import (
	"math/big"
	"reflect"
	"regexp"
	"strconv"
	"strings"
	"unicode/utf8"

	"github.com/go-openapi/strfmt"
)

// Def is one simple-schema definition (a parameter, a header, or an items object).
type Def struct {
	Type             string // string | number | integer | boolean | array
	Format           string
	Enum             []interface{} // members: float64 / string / bool, as a JSON document yields them
	Maximum          *float64
	ExclusiveMaximum bool
	Minimum          *float64
	ExclusiveMinimum bool
	MultipleOf       *float64
	MaxLength        *int64
	MinLength        *int64
	Pattern          string
	MaxItems         *int64
	MinItems         *int64
	UniqueItems      bool
	Items            *Def
}

// Formats is the registry string formats are delegated to.
type Formats interface {
	ContainsName(string) bool
	Validates(string, string) bool
}

// Valid judges v against d with the default format registry.
func Valid(d *Def, v interface{}) bool {
	ok, _ := Check(d, v, strfmt.Default)
	return ok
}

// Check judges v against d and names the first requirement that is not met ("" when valid).
func Check(d *Def, v interface{}, formats Formats) (bool, string) {
	why := check(d, v, formats, "")
	return why == "", why
}

// Rat converts a Go number (any integer or float kind) to the exact rational its shortest decimal
// rendering denotes. ok is false for non-numbers, NaN and infinities.
func Rat(v interface{}) (*big.Rat, bool) {
	if v == nil {
		return nil, false
	}
	return ratOf(reflect.ValueOf(v))
}

// MustRat is Rat for values known to be finite numbers.
func MustRat(v interface{}) *big.Rat {
	r, ok := Rat(v)
	if !ok {
		panic("simple.MustRat: not a finite number")
	}
	return r
}

func ratOf(rv reflect.Value) (*big.Rat, bool) {
	switch rv.Kind() {
	case reflect.Int, reflect.Int8, reflect.Int16, reflect.Int32, reflect.Int64:
		return new(big.Rat).SetInt64(rv.Int()), true
	case reflect.Uint, reflect.Uint8, reflect.Uint16, reflect.Uint32, reflect.Uint64, reflect.Uintptr:
		return new(big.Rat).SetInt(new(big.Int).SetUint64(rv.Uint())), true
	case reflect.Float32:
		return ratOfText(strconv.FormatFloat(rv.Float(), 'g', -1, 32))
	case reflect.Float64:
		return ratOfText(strconv.FormatFloat(rv.Float(), 'g', -1, 64))
	}
	return nil, false
}

func ratOfText(s string) (*big.Rat, bool) {
	if strings.ContainsAny(s, "NI") { // NaN, +Inf, -Inf
		return nil, false
	}
	return new(big.Rat).SetString(s)
}

func ratOfFloat64(f float64) *big.Rat {
	r, ok := ratOfText(strconv.FormatFloat(f, 'g', -1, 64))
	if !ok {
		return nil
	}
	return r
}

func isIntKind(k reflect.Kind) bool {
	return (k >= reflect.Int && k <= reflect.Int64) || (k >= reflect.Uint && k <= reflect.Uint64)
}

func isFloatKind(k reflect.Kind) bool { return k == reflect.Float32 || k == reflect.Float64 }

func isNumKind(k reflect.Kind) bool { return isIntKind(k) || isFloatKind(k) }

var (
	minInt32 = big.NewRat(-1<<31, 1)
	maxInt32 = big.NewRat(1<<31-1, 1)
	minInt64 = new(big.Rat).SetInt64(-1 << 63)
	maxInt64 = new(big.Rat).SetInt64(1<<63 - 1)
	maxFlt32 = ratOfFloat64(3.4028234663852886e+38)
	maxFlt64 = ratOfFloat64(1.7976931348623157e+308)
)

// FormatRange returns the closed range a numeric type/format pair admits (nil, nil: unbounded).
func FormatRange(typ, format string) (lo, hi *big.Rat) {
	switch format {
	case "int32":
		return minInt32, maxInt32
	case "int64":
		return minInt64, maxInt64
	case "float":
		return new(big.Rat).Neg(maxFlt32), maxFlt32
	case "double":
		return new(big.Rat).Neg(maxFlt64), maxFlt64
	}
	if typ == "integer" { // an integer without format is carried by 64 signed bits
		return minInt64, maxInt64
	}
	return nil, nil
}

func at(path, what string) string {
	if path == "" {
		return what
	}
	return path + ": " + what
}

func check(d *Def, v interface{}, formats Formats, path string) string {
	if d == nil {
		return ""
	}
	if v == nil {
		return at(path, "no value")
	}
	rv := reflect.ValueOf(v)
	k := rv.Kind()

	// 1. the declared type
	switch d.Type {
	case "string":
		if k != reflect.String {
			return at(path, "not a string")
		}
	case "boolean":
		if k != reflect.Bool {
			return at(path, "not a boolean")
		}
	case "number":
		if !isNumKind(k) {
			return at(path, "not a number")
		}
		if _, ok := ratOf(rv); !ok {
			return at(path, "not a finite number")
		}
	case "integer":
		if !isNumKind(k) {
			return at(path, "not an integer")
		}
		r, ok := ratOf(rv)
		if !ok || !r.IsInt() {
			return at(path, "not an integral value")
		}
	case "array":
		if k != reflect.Slice {
			return at(path, "not an array")
		}
	default:
		return at(path, "undeclared or unknown type "+strconv.Quote(d.Type))
	}

	// 2. the constraints that speak about this kind of value
	switch {
	case isNumKind(k):
		x, ok := ratOf(rv)
		if !ok {
			return at(path, "not a finite number")
		}
		if d.Type == "integer" || d.Type == "number" {
			if lo, hi := FormatRange(d.Type, d.Format); lo != nil {
				if x.Cmp(lo) < 0 || x.Cmp(hi) > 0 {
					return at(path, "outside the range of format "+strconv.Quote(d.Format))
				}
			}
		}
		if d.Maximum != nil {
			c := x.Cmp(ratOfFloat64(*d.Maximum))
			if c > 0 || (c == 0 && d.ExclusiveMaximum) {
				return at(path, "above maximum")
			}
		}
		if d.Minimum != nil {
			c := x.Cmp(ratOfFloat64(*d.Minimum))
			if c < 0 || (c == 0 && d.ExclusiveMinimum) {
				return at(path, "below minimum")
			}
		}
		if d.MultipleOf != nil {
			m := ratOfFloat64(*d.MultipleOf)
			if m == nil || m.Sign() <= 0 {
				return at(path, "multipleOf is not positive")
			}
			if q := new(big.Rat).Quo(x, m); !q.IsInt() {
				return at(path, "not a multiple")
			}
		}
	case k == reflect.String:
		s := rv.String()
		if d.Type == "string" && d.Format != "" && formats != nil && formats.ContainsName(d.Format) {
			if !formats.Validates(d.Format, s) {
				return at(path, "does not have format "+strconv.Quote(d.Format))
			}
		}
		n := int64(utf8.RuneCountInString(s))
		if d.MaxLength != nil && n > *d.MaxLength {
			return at(path, "longer than maxLength")
		}
		if d.MinLength != nil && n < *d.MinLength {
			return at(path, "shorter than minLength")
		}
		if d.Pattern != "" {
			re, err := regexp.Compile(d.Pattern)
			if err != nil {
				return at(path, "pattern does not compile")
			}
			if !re.MatchString(s) {
				return at(path, "does not match pattern")
			}
		}
	case k == reflect.Slice:
		n := int64(rv.Len())
		if d.MaxItems != nil && n > *d.MaxItems {
			return at(path, "more than maxItems")
		}
		if d.MinItems != nil && n < *d.MinItems {
			return at(path, "fewer than minItems")
		}
		if d.UniqueItems {
			seen := map[string]bool{}
			for i := 0; i < int(n); i++ {
				key := canon(rv.Index(i))
				if seen[key] {
					return at(path, "items are not unique")
				}
				seen[key] = true
			}
		}
		for i := 0; i < int(n); i++ {
			e := rv.Index(i)
			if (e.Kind() == reflect.Interface || e.Kind() == reflect.Ptr) && e.IsNil() {
				return at(path+"["+strconv.Itoa(i)+"]", "nil element")
			}
			if d.Type == "array" && d.Items != nil {
				if why := check(d.Items, e.Interface(), formats, path+"["+strconv.Itoa(i)+"]"); why != "" {
					return why
				}
			}
		}
	}

	// 3. enum: the value is one of the members
	if len(d.Enum) > 0 {
		mine := canon(rv)
		found := false
		for _, m := range d.Enum {
			if m != nil && canon(reflect.ValueOf(m)) == mine {
				found = true
				break
			}
		}
		if !found {
			return at(path, "not a member of enum")
		}
	}
	return ""
}

// canon renders a value so that two values are equal (as JSON values) iff their renderings are:
// numbers by exact rational, strings quoted, booleans, arrays element-wise.
func canon(rv reflect.Value) string {
	for rv.Kind() == reflect.Interface && !rv.IsNil() {
		rv = rv.Elem()
	}
	k := rv.Kind()
	switch {
	case isNumKind(k):
		if r, ok := ratOf(rv); ok {
			return "n" + r.RatString()
		}
		return "n?"
	case k == reflect.String:
		return "s" + strconv.Quote(rv.String())
	case k == reflect.Bool:
		return "b" + strconv.FormatBool(rv.Bool())
	case k == reflect.Slice:
		var b strings.Builder
		b.WriteString("[")
		for i := 0; i < rv.Len(); i++ {
			if i > 0 {
				b.WriteString(",")
			}
			b.WriteString(canon(rv.Index(i)))
		}
		b.WriteString("]")
		return b.String()
	}
	return "?" + rv.Type().String()
}
