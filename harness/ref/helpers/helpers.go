// Package helpers holds the textbook definitions of the exported value helpers of
// go-openapi/validate (property C14). It is written from the property statement, not from the
// library: plain, slow and boring.
//
// Every function answers one question: "is the constraint violated?". Where the statement does not
// say what the answer is (listed at each function), the answer is Unspecified and the caller must not
// compare the library with it.
package helpers

import (
	"math"
	"math/big"
	"reflect"
	"regexp"
	"strings"
	"unicode/utf8"

	"github.com/go-openapi/strfmt"
)

// Tri is a three-valued answer.
type Tri int

const (
	No Tri = iota
	Yes
	Unspecified
)

func (t Tri) String() string {
	switch t {
	case No:
		return "no"
	case Yes:
		return "yes"
	}
	return "unspecified"
}

// ---------------------------------------------------------------------------------------------
// strings

// Length is the number of Unicode code points; a byte that is not part of a valid encoding counts 1.
func Length(s string) int64 {
	var n int64
	for len(s) > 0 {
		_, size := utf8.DecodeRuneInString(s)
		s = s[size:]
		n++
	}
	return n
}

func MinLength(data string, min int64) bool { return Length(data) < min }
func MaxLength(data string, max int64) bool { return Length(data) > max }

// Pattern: Go regexp, search semantics; an expression that does not compile is a violation.
func Pattern(data, pattern string) bool {
	re, err := regexp.Compile(pattern)
	if err != nil {
		return true
	}
	return !re.MatchString(data)
}

// ---------------------------------------------------------------------------------------------
// sizes

func MinItems(size, min int64) bool { return size < min }
func MaxItems(size, max int64) bool { return size > max }

// ---------------------------------------------------------------------------------------------
// equality

type class int

const (
	cNil class = iota // untyped nil
	cNumber
	cString
	cBool
	cPointer
	cSlice
	cArray
	cMap
	cStruct
	cOther
)

func classOf(v reflect.Value) class {
	if !v.IsValid() {
		return cNil
	}
	switch v.Kind() {
	case reflect.Int, reflect.Int8, reflect.Int16, reflect.Int32, reflect.Int64,
		reflect.Uint, reflect.Uint8, reflect.Uint16, reflect.Uint32, reflect.Uint64, reflect.Uintptr,
		reflect.Float32, reflect.Float64:
		return cNumber
	case reflect.String:
		return cString
	case reflect.Bool:
		return cBool
	case reflect.Ptr:
		return cPointer
	case reflect.Slice:
		return cSlice
	case reflect.Array:
		return cArray
	case reflect.Map:
		return cMap
	case reflect.Struct:
		return cStruct
	}
	return cOther
}

// ClassName names the coarse kind of a value ("number", "string", ...), for reports.
func ClassName(x interface{}) string {
	return [...]string{"nil", "number", "string", "bool", "pointer", "slice", "array", "map", "struct", "other"}[classOf(reflect.ValueOf(x))]
}

func isNilable(v reflect.Value) bool {
	switch v.Kind() {
	case reflect.Ptr, reflect.Slice, reflect.Map, reflect.Func, reflect.Chan, reflect.Interface, reflect.UnsafePointer:
		return true
	}
	return false
}

// numCmp compares two numbers exactly. ok=false for NaN.
func numCmp(a, b reflect.Value) (equal bool, ok bool) {
	ra, ia, oka := toRat(a)
	rb, ib, okb := toRat(b)
	if !oka || !okb {
		return false, false
	}
	if ia != 0 || ib != 0 { // infinities
		return ia == ib, true
	}
	return ra.Cmp(rb) == 0, true
}

func toRat(v reflect.Value) (r *big.Rat, inf int, ok bool) {
	switch v.Kind() {
	case reflect.Int, reflect.Int8, reflect.Int16, reflect.Int32, reflect.Int64:
		return new(big.Rat).SetInt64(v.Int()), 0, true
	case reflect.Uint, reflect.Uint8, reflect.Uint16, reflect.Uint32, reflect.Uint64, reflect.Uintptr:
		return new(big.Rat).SetInt(new(big.Int).SetUint64(v.Uint())), 0, true
	case reflect.Float32, reflect.Float64:
		f := v.Float()
		switch {
		case math.IsNaN(f):
			return nil, 0, false
		case math.IsInf(f, 1):
			return nil, 1, true
		case math.IsInf(f, -1):
			return nil, -1, true
		}
		return new(big.Rat).SetFloat64(f), 0, true
	}
	return nil, 0, false
}

// Equal is deep value equality in which numerically equal numbers are equal whatever their Go types.
// foldCase additionally makes two strings equal when they differ only by letter case.
//
// Unspecified (the statement does not decide):
//   - an untyped nil against a typed nil;
//   - numbers of different Go types, or strings differing only by case, *inside* containers;
//   - containers whose contents are equal but whose Go types differ ([]int{1} / []interface{}{1},
//     slice / array, struct / map);
//   - a nil slice against an empty non-nil slice (same for maps);
//   - a non-nil pointer against the value it points to;
//   - equal values of distinct named types; NaN; functions, channels.
func Equal(a, b interface{}, foldCase bool) Tri {
	return equal(reflect.ValueOf(a), reflect.ValueOf(b), foldCase, 0)
}

func and(acc, x Tri) Tri {
	if acc == No || x == No {
		return No
	}
	if acc == Unspecified || x == Unspecified {
		return Unspecified
	}
	return Yes
}

func unwrap(v reflect.Value) reflect.Value {
	for v.IsValid() && v.Kind() == reflect.Interface {
		if v.IsNil() {
			return reflect.Value{}
		}
		v = v.Elem()
	}
	return v
}

func equal(a, b reflect.Value, fold bool, depth int) Tri {
	a, b = unwrap(a), unwrap(b)
	if depth > 50 {
		return Unspecified
	}
	ca, cb := classOf(a), classOf(b)
	if ca == cNil || cb == cNil {
		if ca == cNil && cb == cNil {
			return Yes
		}
		other := a
		if ca == cNil {
			other = b
		}
		if isNilable(other) && other.IsNil() {
			return Unspecified
		}
		return No
	}
	sameType := a.Type() == b.Type()
	if ca != cb {
		switch {
		case ca == cPointer || cb == cPointer:
			p, o := a, b
			if cb == cPointer {
				p, o = b, a
			}
			if p.IsNil() {
				return No
			}
			if equal(p.Elem(), o, fold, depth+1) == No {
				return No
			}
			return Unspecified
		case (ca == cSlice && cb == cArray) || (ca == cArray && cb == cSlice):
			if a.Len() != b.Len() {
				return No
			}
			for i := 0; i < a.Len(); i++ {
				if equal(a.Index(i), b.Index(i), fold, depth+1) == No {
					return No
				}
			}
			return Unspecified
		case (ca == cStruct && cb == cMap) || (ca == cMap && cb == cStruct):
			return Unspecified
		}
		return No
	}
	switch ca {
	case cNumber:
		eq, ok := numCmp(a, b)
		if !ok {
			return Unspecified
		}
		if !eq {
			return No
		}
		if sameType || depth == 0 {
			return Yes
		}
		return Unspecified
	case cString:
		if a.String() == b.String() {
			if sameType {
				return Yes
			}
			return Unspecified
		}
		if fold && strings.EqualFold(a.String(), b.String()) {
			if sameType && depth == 0 {
				return Yes
			}
			return Unspecified
		}
		return No
	case cBool:
		if a.Bool() != b.Bool() {
			return No
		}
		if sameType {
			return Yes
		}
		return Unspecified
	case cPointer:
		if a.IsNil() || b.IsNil() {
			if a.IsNil() && b.IsNil() {
				if sameType {
					return Yes
				}
				return Unspecified
			}
			return No
		}
		r := equal(a.Elem(), b.Elem(), fold, depth+1)
		if r == Yes && !sameType {
			return Unspecified
		}
		return r
	case cSlice, cArray:
		if a.Len() != b.Len() {
			return No
		}
		r := Yes
		for i := 0; i < a.Len(); i++ {
			r = and(r, equal(a.Index(i), b.Index(i), fold, depth+1))
			if r == No {
				return No
			}
		}
		if ca == cSlice && a.IsNil() != b.IsNil() {
			r = and(r, Unspecified)
		}
		if !sameType {
			r = and(r, Unspecified)
		}
		return r
	case cMap:
		if a.Len() != b.Len() {
			return No
		}
		if a.Type().Key() != b.Type().Key() {
			return Unspecified
		}
		r := Yes
		for _, k := range a.MapKeys() {
			bv := b.MapIndex(k)
			if !bv.IsValid() {
				return No
			}
			r = and(r, equal(a.MapIndex(k), bv, fold, depth+1))
			if r == No {
				return No
			}
		}
		if a.IsNil() != b.IsNil() {
			r = and(r, Unspecified)
		}
		if !sameType {
			r = and(r, Unspecified)
		}
		return r
	case cStruct:
		if !sameType {
			return Unspecified
		}
		r := Yes
		for i := 0; i < a.NumField(); i++ {
			r = and(r, equal(a.Field(i), b.Field(i), fold, depth+1))
			if r == No {
				return No
			}
		}
		return r
	}
	return Unspecified
}

// EnumCase: data must be a member of the list enum. Violated when no element equals data; an empty
// list has no members. Unspecified when enum is not a slice (the statement does not say what a
// non-list enumeration means) or when membership hinges on an Unspecified comparison.
func EnumCase(data, enum interface{}, caseSensitive bool) (violated bool, specified bool) {
	l := reflect.ValueOf(enum)
	if !l.IsValid() || l.Kind() != reflect.Slice {
		return false, false
	}
	open := false
	for i := 0; i < l.Len(); i++ {
		switch Equal(data, l.Index(i).Interface(), !caseSensitive) {
		case Yes:
			return false, true
		case Unspecified:
			open = true
		}
	}
	if open {
		return false, false
	}
	return true, true
}

func Enum(data, enum interface{}) (violated bool, specified bool) {
	return EnumCase(data, enum, true)
}

// UniqueItems: violated when two elements at different positions are equal. Something that is not a
// slice has no items and cannot violate the constraint.
func UniqueItems(data interface{}) (violated bool, specified bool) {
	l := reflect.ValueOf(data)
	if !l.IsValid() || l.Kind() != reflect.Slice {
		return false, true
	}
	open := false
	for i := 0; i < l.Len(); i++ {
		for j := i + 1; j < l.Len(); j++ {
			switch Equal(l.Index(i).Interface(), l.Index(j).Interface(), false) {
			case Yes:
				return true, true
			case Unspecified:
				open = true
			}
		}
	}
	if open {
		return false, false
	}
	return false, true
}

// ---------------------------------------------------------------------------------------------
// zero values

// IsZero says whether data is the zero value of its type; an untyped nil is zero.
//
// Unspecified: a non-nil but empty slice or map; a non-nil pointer or interface to a zero (or
// unspecified) value; negative zero; aggregates of those.
func IsZero(data interface{}) Tri { return isZero(reflect.ValueOf(data), 0) }

func isZero(v reflect.Value, depth int) Tri {
	if !v.IsValid() {
		return Yes
	}
	if depth > 50 {
		return Unspecified
	}
	switch v.Kind() {
	case reflect.Bool:
		return tri(!v.Bool())
	case reflect.Int, reflect.Int8, reflect.Int16, reflect.Int32, reflect.Int64:
		return tri(v.Int() == 0)
	case reflect.Uint, reflect.Uint8, reflect.Uint16, reflect.Uint32, reflect.Uint64, reflect.Uintptr:
		return tri(v.Uint() == 0)
	case reflect.Float32, reflect.Float64:
		f := v.Float()
		if f == 0 && math.Signbit(f) {
			return Unspecified
		}
		return tri(f == 0)
	case reflect.Complex64, reflect.Complex128:
		c := v.Complex()
		if c == 0 && (math.Signbit(real(c)) || math.Signbit(imag(c))) {
			return Unspecified
		}
		return tri(c == 0)
	case reflect.String:
		return tri(v.Len() == 0)
	case reflect.Ptr, reflect.Interface:
		if v.IsNil() {
			return Yes
		}
		if isZero(v.Elem(), depth+1) == No {
			return No
		}
		return Unspecified
	case reflect.Slice, reflect.Map:
		if v.IsNil() {
			return Yes
		}
		// the zero value of a slice or map type is nil (Go specification, "The zero value"); an
		// allocated collection, empty or not, is a value
		return No
	case reflect.Func, reflect.Chan, reflect.UnsafePointer:
		return tri(v.IsNil())
	case reflect.Array:
		r := Yes
		for i := 0; i < v.Len(); i++ {
			switch isZero(v.Index(i), depth+1) {
			case No:
				return No
			case Unspecified:
				r = Unspecified
			}
		}
		return r
	case reflect.Struct:
		r := Yes
		for i := 0; i < v.NumField(); i++ {
			switch isZero(v.Field(i), depth+1) {
			case No:
				return No
			case Unspecified:
				r = Unspecified
			}
		}
		return r
	}
	return Unspecified
}

func tri(b bool) Tri {
	if b {
		return Yes
	}
	return No
}

// Required rejects exactly the zero values.
func Required(data interface{}) (violated bool, specified bool) {
	switch IsZero(data) {
	case Yes:
		return true, true
	case No:
		return false, true
	}
	return false, false
}

// ReadOnly rejects exactly the non-zero values, and only when the call is made in a request context.
func ReadOnly(requestContext bool, data interface{}) (violated bool, specified bool) {
	if !requestContext {
		return false, true
	}
	switch IsZero(data) {
	case Yes:
		return false, true
	case No:
		return true, true
	}
	return false, false
}

func RequiredString(data string) bool { return data == "" }

// RequiredNumber: NaN is not zero.
func RequiredNumber(data float64) bool { return data == 0 }

// FormatOf rejects a name the registry does not know and otherwise follows the registry's verdict.
// Unspecified for a nil registry (the statement names no fallback).
func FormatOf(format, data string, registry strfmt.Registry) (violated bool, specified bool) {
	if registry == nil || (reflect.ValueOf(registry).Kind() == reflect.Ptr && reflect.ValueOf(registry).IsNil()) {
		return false, false
	}
	if !registry.ContainsName(format) {
		return true, true
	}
	return !registry.Validates(format, data), true
}
