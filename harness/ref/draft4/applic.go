package draft4

import (
	"regexp"
	"strconv"
)

// Applic lists the schemas that apply to one instance location. Must: through properties /
// patternProperties / additionalProperties / items / every allOf member / dependencies schemas / the
// only valid oneOf or anyOf alternative. May: the valid alternatives of an anyOf (or oneOf) when more
// than one is valid — which one is "selected" is then the implementation's choice.
type Applic struct {
	Must []map[string]any
	May  []map[string]any
}

// Applicable computes, for every location of inst reached by the schema, the applicable schemas
// (references resolved). Locations use the same encoding as Fail.Loc.
func (e *Evaluator) Applicable(schema any, inst any) map[string]*Applic {
	out := map[string]*Applic{}
	e.applic(schema, inst, "", false, out, 0)
	return out
}

func (e *Evaluator) quiet(schema any, inst any) bool {
	saved := e.Fails
	e.Fails = nil
	defer func() { e.Fails = saved }()
	return e.eval(schema, inst, "")
}

func (e *Evaluator) applic(schema any, inst any, loc string, may bool, out map[string]*Applic, depth int) {
	s, ok := schema.(map[string]any)
	if !ok || depth > 100 {
		return
	}
	if r, ok := s["$ref"].(string); ok {
		t, err := e.Resolve(r)
		if err != nil {
			return
		}
		e.applic(t, inst, loc, may, out, depth+1)
		return
	}
	a := out[loc]
	if a == nil {
		a = &Applic{}
		out[loc] = a
	}
	if may {
		a.May = append(a.May, s)
	} else {
		a.Must = append(a.Must, s)
	}
	if all, ok := s["allOf"].([]any); ok {
		for _, sub := range all {
			e.applic(sub, inst, loc, may, out, depth+1)
		}
	}
	for _, kw := range []string{"anyOf", "oneOf"} {
		if alts, ok := s[kw].([]any); ok {
			var valid []any
			for _, sub := range alts {
				if e.quiet(sub, inst) {
					valid = append(valid, sub)
				}
			}
			for _, sub := range valid {
				e.applic(sub, inst, loc, may || len(valid) > 1, out, depth+1)
			}
		}
	}
	if obj, isObj := inst.(map[string]any); isObj {
		if deps, ok := s["dependencies"].(map[string]any); ok {
			for _, k := range sortedKeys(deps) {
				if _, present := obj[k]; !present {
					continue
				}
				if d, ok := deps[k].(map[string]any); ok {
					e.applic(d, inst, loc, may, out, depth+1)
				}
			}
		}
		props, _ := s["properties"].(map[string]any)
		pats, _ := s["patternProperties"].(map[string]any)
		for _, k := range sortedKeys(obj) {
			covered := false
			if ps, has := props[k]; has {
				covered = true
				e.applic(ps, obj[k], join(loc, k), may, out, depth+1)
			}
			for _, p := range sortedKeys(pats) {
				re, err := regexp.Compile(p)
				if err != nil || !re.MatchString(k) {
					continue
				}
				covered = true
				e.applic(pats[p], obj[k], join(loc, k), may, out, depth+1)
			}
			if covered {
				continue
			}
			if ap, ok := s["additionalProperties"].(map[string]any); ok {
				e.applic(ap, obj[k], join(loc, k), may, out, depth+1)
			}
		}
	}
	if arr, isArr := inst.([]any); isArr {
		switch it := s["items"].(type) {
		case map[string]any:
			for i, x := range arr {
				e.applic(it, x, join(loc, strconv.Itoa(i)), may, out, depth+1)
			}
		case []any:
			for i, x := range arr {
				if i < len(it) {
					e.applic(it[i], x, join(loc, strconv.Itoa(i)), may, out, depth+1)
				} else if ai, ok := s["additionalItems"].(map[string]any); ok {
					e.applic(ai, x, join(loc, strconv.Itoa(i)), may, out, depth+1)
				}
			}
		}
	}
}

// Describes tells whether schema s (already applicable to an object) describes member k: a declared
// property, a matching pattern property, or a schema-valued additionalProperties.
func Describes(s map[string]any, k string) bool {
	if props, ok := s["properties"].(map[string]any); ok {
		if _, has := props[k]; has {
			return true
		}
	}
	if pats, ok := s["patternProperties"].(map[string]any); ok {
		for p := range pats {
			if re, err := regexp.Compile(p); err == nil && re.MatchString(k) {
				return true
			}
		}
	}
	if _, ok := s["additionalProperties"].(map[string]any); ok {
		return true
	}
	return false
}

// Join exposes the location encoding.
func Join(loc, seg string) string { return join(loc, seg) }
