package draft4

import (
	"encoding/json"
	"fmt"
	"os"
	"path/filepath"
	"sort"
	"strings"
)

// Conformance runs the JSON-Schema-Test-Suite draft-4 files found in dir (non-optional ones) through
// the reference evaluator. Groups whose schema uses a non-local reference or `id`-based resolution
// are skipped (outside the reference's and the property's domain). It returns the number of labelled
// instances that agree, the number skipped and a description of every disagreement.
func Conformance(dir string, f Formats) (agree, skipped int, bad []string, err error) {
	files, err := filepath.Glob(filepath.Join(dir, "*.json"))
	if err != nil {
		return
	}
	sort.Strings(files)
	for _, file := range files {
		base := filepath.Base(file)
		if base == "refRemote.json" {
			continue
		}
		b, e := os.ReadFile(file)
		if e != nil {
			return 0, 0, nil, e
		}
		d := json.NewDecoder(strings.NewReader(string(b)))
		d.UseNumber()
		var groups []struct {
			Description string `json:"description"`
			Schema      any    `json:"schema"`
			Tests       []struct {
				Description string `json:"description"`
				Data        any    `json:"data"`
				Valid       bool   `json:"valid"`
			} `json:"tests"`
		}
		if e := d.Decode(&groups); e != nil {
			return 0, 0, nil, fmt.Errorf("%s: %v", file, e)
		}
		for _, g := range groups {
			txt, _ := json.Marshal(g.Schema)
			if strings.Contains(string(txt), `"$ref":"http`) || strings.Contains(string(txt), `"id":"http`) ||
				strings.Contains(string(txt), `"$ref":"foo`) || strings.Contains(string(txt), `"$ref":"node`) {
				skipped += len(g.Tests)
				continue
			}
			root, isObj := g.Schema.(map[string]any)
			if !isObj {
				skipped += len(g.Tests)
				continue
			}
			for _, t := range g.Tests {
				ev := &Evaluator{Root: root, Formats: f}
				var got bool
				var pan any
				func() {
					defer func() { pan = recover() }()
					got = ev.Valid(root, t.Data)
				}()
				if pan != nil {
					skipped++
					continue
				}
				if got == t.Valid {
					agree++
				} else {
					bad = append(bad, fmt.Sprintf("%s / %s / %s: reference says %v, suite says %v", base, g.Description, t.Description, got, t.Valid))
				}
			}
		}
	}
	return
}
