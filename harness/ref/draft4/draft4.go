// Package draft4 is a plain JSON-Schema draft-4 evaluator written from the specification, used as the
// reference model. It is bound to the specification by the JSON-Schema-Test-Suite files shipped in
// the repository (see Conformance).
//
// Schemas are the generic values produced by encoding/json with UseNumber; instances may carry
// numbers as float64, json.Number or any Go integer/float type.
package draft4

import (
	"encoding/json"
	"fmt"
	"math/big"
	"reflect"
	"regexp"
	"sort"
	"strconv"
	"strings"
	"unicode/utf8"
)

// Formats is the part of the format registry the reference delegates to.
type Formats interface {
	ContainsName(string) bool
	Validates(string, string) bool
}

// Fail is one failing keyword.
type Fail struct {
	Loc string // instance location, segments joined by "\x00" ("" = root)
	Kw  string
	// Missing is set for "required": the missing member name
	Missing string
	// Schema is the schema object whose keyword failed
	Schema map[string]any
}

type Evaluator struct {
	Root    map[string]any
	Formats Formats
	// Fails collects failing leaves when non-nil (all branches, including losing anyOf/oneOf ones).
	Fails *[]Fail
	depth int
	cur   map[string]any // schema object being evaluated (for Fail.Schema)
}

// ParseSchema decodes a schema text keeping number literals.
func ParseSchema(text string) (map[string]any, error) {
	d := json.NewDecoder(strings.NewReader(text))
	d.UseNumber()
	var v any
	if err := d.Decode(&v); err != nil {
		return nil, err
	}
	m, ok := v.(map[string]any)
	if !ok {
		return nil, fmt.Errorf("schema is not an object")
	}
	return m, nil
}

// Rat converts any numeric carrier to an exact rational of its decimal rendering.
func Rat(v any) (*big.Rat, bool) {
	switch n := v.(type) {
	case json.Number:
		r, ok := new(big.Rat).SetString(string(n))
		return r, ok
	case float64:
		r, ok := new(big.Rat).SetString(strconv.FormatFloat(n, 'g', -1, 64))
		return r, ok
	case float32:
		r, ok := new(big.Rat).SetString(strconv.FormatFloat(float64(n), 'g', -1, 32))
		return r, ok
	}
	rv := reflect.ValueOf(v)
	switch rv.Kind() {
	case reflect.Int, reflect.Int8, reflect.Int16, reflect.Int32, reflect.Int64:
		return new(big.Rat).SetInt64(rv.Int()), true
	case reflect.Uint, reflect.Uint8, reflect.Uint16, reflect.Uint32, reflect.Uint64:
		return new(big.Rat).SetInt(new(big.Int).SetUint64(rv.Uint())), true
	}
	return nil, false
}

// Kind returns the JSON type name of an instance.
func Kind(v any) string {
	switch t := v.(type) {
	case nil:
		return "null"
	case bool:
		return "boolean"
	case string:
		return "string"
	case []any:
		return "array"
	case map[string]any:
		return "object"
	default:
		if r, ok := Rat(t); ok {
			if r.IsInt() {
				return "integer"
			}
			return "number"
		}
	}
	return "unknown"
}

// Equal is JSON deep equality with mathematical number comparison.
func Equal(a, b any) bool {
	ka, kb := Kind(a), Kind(b)
	isNum := func(k string) bool { return k == "integer" || k == "number" }
	if isNum(ka) && isNum(kb) {
		ra, _ := Rat(a)
		rb, _ := Rat(b)
		return ra.Cmp(rb) == 0
	}
	if ka != kb {
		return false
	}
	switch ta := a.(type) {
	case nil:
		return true
	case bool:
		return ta == b.(bool)
	case string:
		return ta == b.(string)
	case []any:
		tb := b.([]any)
		if len(ta) != len(tb) {
			return false
		}
		for i := range ta {
			if !Equal(ta[i], tb[i]) {
				return false
			}
		}
		return true
	case map[string]any:
		tb := b.(map[string]any)
		if len(ta) != len(tb) {
			return false
		}
		for k, v := range ta {
			w, ok := tb[k]
			if !ok || !Equal(v, w) {
				return false
			}
		}
		return true
	}
	return false
}

func (e *Evaluator) fail(loc, kw string) {
	if e.Fails != nil {
		*e.Fails = append(*e.Fails, Fail{Loc: loc, Kw: kw, Schema: e.cur})
	}
}

func join(loc, seg string) string {
	if loc == "" {
		return "\x00" + seg
	}
	return loc + "\x00" + seg
}

// Resolve follows a local reference.
func (e *Evaluator) Resolve(ref string) (any, error) {
	if ref == "#" {
		return e.Root, nil
	}
	if !strings.HasPrefix(ref, "#/") {
		return nil, fmt.Errorf("unsupported reference %q", ref)
	}
	var cur any = e.Root
	for _, seg := range strings.Split(ref[2:], "/") {
		seg = strings.ReplaceAll(strings.ReplaceAll(seg, "~1", "/"), "~0", "~")
		if u, err := unescape(seg); err == nil {
			seg = u
		}
		switch c := cur.(type) {
		case map[string]any:
			n, ok := c[seg]
			if !ok {
				return nil, fmt.Errorf("unresolvable reference %q", ref)
			}
			cur = n
		case []any:
			i, err := strconv.Atoi(seg)
			if err != nil || i < 0 || i >= len(c) {
				return nil, fmt.Errorf("unresolvable reference %q", ref)
			}
			cur = c[i]
		default:
			return nil, fmt.Errorf("unresolvable reference %q", ref)
		}
	}
	return cur, nil
}

func unescape(s string) (string, error) {
	if !strings.Contains(s, "%") {
		return s, nil
	}
	var sb strings.Builder
	for i := 0; i < len(s); i++ {
		if s[i] == '%' && i+2 < len(s)+0 && i+2 <= len(s)-1+0 {
			if v, err := strconv.ParseUint(s[i+1:i+3], 16, 8); err == nil {
				sb.WriteByte(byte(v))
				i += 2
				continue
			}
		}
		sb.WriteByte(s[i])
	}
	return sb.String(), nil
}

// Valid evaluates inst against schema.
func (e *Evaluator) Valid(schema any, inst any) bool { return e.eval(schema, inst, "") }

func (e *Evaluator) eval(schema any, inst any, loc string) bool {
	s, ok := schema.(map[string]any)
	if !ok {
		return true // not a schema object: no constraint (draft 4 has no boolean schemas)
	}
	e.depth++
	defer func() { e.depth-- }()
	if e.depth > 200 {
		panic("draft4: reference loop")
	}
	if r, ok := s["$ref"].(string); ok {
		t, err := e.Resolve(r)
		if err != nil {
			panic("draft4: " + err.Error())
		}
		return e.eval(t, inst, loc)
	}
	ok = true
	kind := Kind(inst)
	saved := e.cur
	e.cur = s
	defer func() { e.cur = saved }()

	if t, has := s["type"]; has {
		match := false
		check := func(name string) {
			if name == kind || (name == "number" && kind == "integer") {
				match = true
			}
		}
		switch tt := t.(type) {
		case string:
			check(tt)
		case []any:
			for _, x := range tt {
				if xs, isS := x.(string); isS {
					check(xs)
				}
			}
		}
		if !match {
			e.fail(loc, "type")
			ok = false
		}
	}
	if en, has := s["enum"].([]any); has {
		found := false
		for _, x := range en {
			if Equal(x, inst) {
				found = true
				break
			}
		}
		if !found {
			e.fail(loc, "enum")
			ok = false
		}
	}

	if kind == "integer" || kind == "number" {
		v, _ := Rat(inst)
		if m, has := ratOf(s["maximum"]); has {
			excl, _ := s["exclusiveMaximum"].(bool)
			c := v.Cmp(m)
			if c > 0 || (excl && c == 0) {
				e.fail(loc, "maximum")
				ok = false
			}
		}
		if m, has := ratOf(s["minimum"]); has {
			excl, _ := s["exclusiveMinimum"].(bool)
			c := v.Cmp(m)
			if c < 0 || (excl && c == 0) {
				e.fail(loc, "minimum")
				ok = false
			}
		}
		if m, has := ratOf(s["multipleOf"]); has && m.Sign() > 0 {
			q := new(big.Rat).Quo(v, m)
			if !q.IsInt() {
				e.fail(loc, "multipleOf")
				ok = false
			}
		}
	}

	if str, isStr := inst.(string); isStr {
		n := utf8.RuneCountInString(str)
		if m, has := intOf(s["maxLength"]); has && int64(n) > m {
			e.fail(loc, "maxLength")
			ok = false
		}
		if m, has := intOf(s["minLength"]); has && int64(n) < m {
			e.fail(loc, "minLength")
			ok = false
		}
		if p, has := s["pattern"].(string); has {
			if re, err := regexp.Compile(p); err == nil && !re.MatchString(str) {
				e.fail(loc, "pattern")
				ok = false
			}
		}
		if f, has := s["format"].(string); has && e.Formats != nil && e.Formats.ContainsName(f) {
			if !e.Formats.Validates(f, str) {
				e.fail(loc, "format")
				ok = false
			}
		}
	}

	if arr, isArr := inst.([]any); isArr {
		if m, has := intOf(s["maxItems"]); has && int64(len(arr)) > m {
			e.fail(loc, "maxItems")
			ok = false
		}
		if m, has := intOf(s["minItems"]); has && int64(len(arr)) < m {
			e.fail(loc, "minItems")
			ok = false
		}
		if u, _ := s["uniqueItems"].(bool); u {
		outer:
			for i := range arr {
				for j := 0; j < i; j++ {
					if Equal(arr[i], arr[j]) {
						e.fail(loc, "uniqueItems")
						ok = false
						break outer
					}
				}
			}
		}
		switch it := s["items"].(type) {
		case map[string]any:
			for i, x := range arr {
				if !e.eval(it, x, join(loc, strconv.Itoa(i))) {
					ok = false
				}
			}
		case []any:
			for i, x := range arr {
				if i < len(it) {
					if !e.eval(it[i], x, join(loc, strconv.Itoa(i))) {
						ok = false
					}
					continue
				}
				switch ai := s["additionalItems"].(type) {
				case bool:
					if !ai {
						e.fail(loc, "additionalItems")
						ok = false
					}
				case map[string]any:
					if !e.eval(ai, x, join(loc, strconv.Itoa(i))) {
						ok = false
					}
				}
			}
		}
	}

	if obj, isObj := inst.(map[string]any); isObj {
		if m, has := intOf(s["maxProperties"]); has && int64(len(obj)) > m {
			e.fail(loc, "maxProperties")
			ok = false
		}
		if m, has := intOf(s["minProperties"]); has && int64(len(obj)) < m {
			e.fail(loc, "minProperties")
			ok = false
		}
		if req, has := s["required"].([]any); has {
			for _, r := range req {
				if name, isS := r.(string); isS {
					if _, present := obj[name]; !present {
						if e.Fails != nil {
							*e.Fails = append(*e.Fails, Fail{Loc: loc, Kw: "required", Missing: name, Schema: s})
						}
						ok = false
					}
				}
			}
		}
		props, _ := s["properties"].(map[string]any)
		pats, _ := s["patternProperties"].(map[string]any)
		for _, k := range sortedKeys(obj) {
			v := obj[k]
			covered := false
			if ps, has := props[k]; has {
				covered = true
				if !e.eval(ps, v, join(loc, k)) {
					ok = false
				}
			}
			for _, p := range sortedKeys(pats) {
				re, err := regexp.Compile(p)
				if err != nil || !re.MatchString(k) {
					continue
				}
				covered = true
				if !e.eval(pats[p], v, join(loc, k)) {
					ok = false
				}
			}
			if covered {
				continue
			}
			switch ap := s["additionalProperties"].(type) {
			case bool:
				if !ap {
					if e.Fails != nil {
						*e.Fails = append(*e.Fails, Fail{Loc: join(loc, k), Kw: "additionalProperties", Schema: s})
					}
					ok = false
				}
			case map[string]any:
				if !e.eval(ap, v, join(loc, k)) {
					ok = false
				}
			}
		}
		if deps, has := s["dependencies"].(map[string]any); has {
			for _, k := range sortedKeys(deps) {
				if _, present := obj[k]; !present {
					continue
				}
				switch d := deps[k].(type) {
				case []any:
					for _, r := range d {
						if name, isS := r.(string); isS {
							if _, p := obj[name]; !p {
								e.fail(loc, "dependencies")
								ok = false
							}
						}
					}
				case map[string]any:
					if !e.eval(d, inst, loc) {
						ok = false
					}
				}
			}
		}
	}

	if all, has := s["allOf"].([]any); has {
		allOK := true
		for _, sub := range all {
			if !e.eval(sub, inst, loc) {
				allOK = false
			}
		}
		if !allOK {
			e.cur = s
			e.fail(loc, "allOf")
			ok = false
		}
	}
	if anyOf, has := s["anyOf"].([]any); has {
		matched := false
		for _, sub := range anyOf {
			if e.eval(sub, inst, loc) {
				matched = true
			}
		}
		if !matched {
			e.fail(loc, "anyOf")
			ok = false
		}
	}
	if one, has := s["oneOf"].([]any); has {
		n := 0
		for _, sub := range one {
			if e.eval(sub, inst, loc) {
				n++
			}
		}
		if n != 1 {
			e.fail(loc, "oneOf")
			ok = false
		}
	}
	if not, has := s["not"]; has {
		saved := e.Fails
		e.Fails = nil
		v := e.eval(not, inst, loc)
		e.Fails = saved
		if v {
			e.fail(loc, "not")
			ok = false
		}
	}
	return ok
}

func ratOf(v any) (*big.Rat, bool) {
	if v == nil {
		return nil, false
	}
	return Rat(v)
}

func intOf(v any) (int64, bool) {
	r, ok := ratOf(v)
	if !ok || !r.IsInt() {
		return 0, false
	}
	return r.Num().Int64(), true
}

func sortedKeys[V any](m map[string]V) []string {
	ks := make([]string, 0, len(m))
	for k := range m {
		ks = append(ks, k)
	}
	sort.Strings(ks)
	return ks
}
