// vcheck <ID> <quick|thorough> [--worker i/n ...] [--replay file]
package main

import (
	"fmt"
	"os"
	"strconv"
	"strings"
	"time"

	"github.com/go-openapi/validate"

	"verif/harness/checks"
	"verif/harness/hx"
)

func main() {
	if len(os.Args) < 3 {
		fmt.Fprintln(os.Stderr, "usage: vcheck <ID> <quick|thorough> [--worker i/n] [--replay file]")
		os.Exit(2)
	}
	c := &hx.Ctx{ID: os.Args[1], Tier: os.Args[2], Worker: -1, Start: time.Now()}
	if s := os.Getenv("VERIF_SEED"); s != "" {
		c.Seed, _ = strconv.Atoi(s)
	}
	if s := os.Getenv("VERIF_BUDGET_S"); s != "" {
		n, _ := strconv.Atoi(s)
		c.Budget = time.Duration(n) * time.Second
	}
	rest := os.Args[3:]
	for i := 0; i < len(rest); i++ {
		switch rest[i] {
		case "--worker":
			parts := strings.Split(rest[i+1], "/")
			c.Worker, _ = strconv.Atoi(parts[0])
			c.Workers, _ = strconv.Atoi(parts[1])
			i++
		case "--replay":
			if i+1 < len(rest) {
				os.Exit(checks.Replay(c.ID, rest[i+1]))
			}
		default:
			c.Args = append(c.Args, rest[i])
		}
	}
	if d := validate.VerifDegraded(); len(d) > 0 {
		// the internals of this tree differ from the pinned one: some observers are stand-ins
		hx.ExtraAssumptions = append(hx.ExtraAssumptions, "observers not available on this tree (stand-ins used, dependent oracles skipped): "+strings.Join(d, ", "))
		if c.Worker < 0 {
			fmt.Fprintln(os.Stderr, "NOTE observers not available on this tree:", strings.Join(d, ", "))
		}
	}
	f, ok := checks.Registry[c.ID]
	if !ok {
		fmt.Fprintf(os.Stderr, "unknown property %s\n", c.ID)
		os.Exit(2)
	}
	os.Exit(f(c))
}
