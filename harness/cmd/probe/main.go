package main

import (
	"encoding/json"
	"fmt"
	"os"

	"github.com/go-openapi/errors"
	"github.com/go-openapi/spec"
	"github.com/go-openapi/strfmt"
	"github.com/go-openapi/validate"
)

func main() {
	cases := [][2]string{
		{`{"properties":{"a":{"type":"integer"}},"required":["b"]}`, `{"a":"x"}`},
		{`{"properties":{"a":{"properties":{"b":{"type":"integer"}},"required":["c"],"additionalProperties":false}}}`, `{"a":{"b":"x","d":1}}`},
		{`{"patternProperties":{"^a":{"type":"integer"}},"additionalProperties":{"type":"string"}}`, `{"ab":"x","c":1}`},
		{`{"items":[{"type":"integer"},{"properties":{"a":{"minLength":2}}}],"additionalItems":false}`, `["x",{"a":"y"},3]`},
		{`{"items":{"type":"integer"}}`, `[1,"x"]`},
		{`{"minProperties":3,"maxItems":1,"minLength":5,"maximum":1,"enum":[7],"type":"boolean"}`, `{"a":1}`},
		{`{"anyOf":[{"type":"integer"},{"properties":{"a":{"type":"integer"}},"required":["a"]}]}`, `{"a":"x"}`},
		{`{"properties":{"a.b":{"type":"integer"}},"dependencies":{"a.b":["z"]}}`, `{"a.b":"x"}`},
		{`{"uniqueItems":true,"items":[{"multipleOf":2}]}`, `[3,3]`},
		{`{"not":{}}`, `1`},
	}
	for _, root := range []string{"", "data"} {
		for _, c := range cases {
			var s spec.Schema
			json.Unmarshal([]byte(c[0]), &s)
			var v any
			json.Unmarshal([]byte(c[1]), &v)
			res := validate.NewSchemaValidator(&s, nil, root, strfmt.Default).Validate(v)
			fmt.Println(root, "|", c[0], "⊢", c[1])
			for _, e := range res.Errors {
				if ve, ok := e.(*errors.Validation); ok {
					fmt.Printf("    V name=%q in=%q value=%v code=%d :: %s\n", ve.Name, ve.In, ve.Value, ve.Code(), ve.Error())
				} else {
					fmt.Printf("    %T :: %s\n", e, e.Error())
				}
			}
		}
	}
	_ = os.Stdout
}
