package main

import (
	"fmt"
	"os"

	"github.com/go-openapi/strfmt"
	"verif/harness/ref/draft4"
)

func main() {
	a, s, bad, err := draft4.Conformance("/repo/fixtures/jsonschema_suite", strfmt.Default)
	fmt.Println("agree", a, "skipped", s, "bad", len(bad), err)
	for _, b := range bad {
		fmt.Println(" ", b)
	}
	if len(bad) > 0 || err != nil {
		os.Exit(1)
	}
}
