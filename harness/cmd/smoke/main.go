package main

import (
	"encoding/json"
	"fmt"

	"github.com/go-openapi/spec"
	"github.com/go-openapi/strfmt"
	"github.com/go-openapi/validate"
	"github.com/go-openapi/validate/verifrt"
)

func main() {
	m := map[string]int{"a": 1, "b": 2, "c": 3, "d": 4}
	for k := 0; k < 4; k++ {
		verifrt.SetMapPolicy(k)
		s := ""
		for key := range m {
			s += key
		}
		fmt.Print(s, " ")
	}
	fmt.Println()
	verifrt.SetMapPolicy(0)
	var sch spec.Schema
	json.Unmarshal([]byte(`{"type":"object","properties":{"a":{"type":"integer","maximum":2}},"required":["b"]}`), &sch)
	var data interface{}
	json.Unmarshal([]byte(`{"a":3}`), &data)
	for i := 0; i < 2; i++ {
		err := validate.AgainstSchema(&sch, data, strfmt.Default)
		fmt.Println(err)
		fmt.Printf("%+v\n", verifrt.PoolStats)
	}
	fmt.Println(verifrt.FreeCounts(), verifrt.FreeDigest())
	// threads
	p, dl, sw, _ := verifrt.RunThreads(verifrt.SchedConfig{Mutex: true, Atomic: true, Pool: true},
		func() { fmt.Println("t0", validate.AgainstSchema(&sch, data, strfmt.Default)) },
		func() { fmt.Println("t1", validate.Pattern("p", "q", "aa", "^a+$")) })
	fmt.Println(p, dl, sw, verifrt.RaceEnabled)
}
