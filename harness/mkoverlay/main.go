// mkoverlay writes a `go build -overlay` file that instruments the CURRENT working tree of the
// repository without touching it:
//
//  1. every non-test .go file of packages validate and validate/post importing "sync" or
//     "sync/atomic" is copied with exactly those import specs rewritten to the shim packages;
//  2. the shim packages (verifrt, verifrt/vsync, verifrt/vatomic) are added as virtual directories
//     inside the validate module;
//  3. zz_verif_export.go is added to package validate (read-only observers and resets);
//  4. patched copies of runtime/map*.go and runtime/alg.go make map iteration order an environment
//     answer and bucket layout reproducible.
//
// Any mismatch (file does not parse after rewriting, runtime snippet not found the expected number
// of times) is a harness error: exit 2, no VIOLATION line.
package main

import (
	"encoding/json"
	"flag"
	"fmt"
	"go/parser"
	"go/token"
	"os"
	"path/filepath"
	"regexp"
	"runtime"
	"strings"
)

func die(f string, a ...any) {
	fmt.Fprintf(os.Stderr, "mkoverlay: "+f+"\n", a...)
	os.Exit(2)
}

func main() {
	repo := flag.String("repo", "/repo", "repository working tree")
	rt := flag.String("rt", "/verif/harness/rt", "directory holding the shim sources")
	out := flag.String("out", "", "output directory (overlay.json and rewritten files)")
	extra := flag.String("extra", "", "optional JSON file {path: replacement} merged last (mutation experiments)")
	flag.Parse()
	if *out == "" {
		die("-out required")
	}
	if err := os.MkdirAll(*out, 0o755); err != nil {
		die("%v", err)
	}
	repl := map[string]string{}
	// source overrides (mutation experiments, candidate fixes): path in the repository -> file to use
	// instead. They are applied BEFORE the import rewrite so that an overridden pools.go / rexp.go
	// still gets the shims.
	override := map[string]string{}
	if *extra != "" {
		b, err := os.ReadFile(*extra)
		if err != nil {
			die("%v", err)
		}
		if err := json.Unmarshal(b, &override); err != nil {
			die("%v", err)
		}
	}

	// 1. import rewrite
	reSync := regexp.MustCompile(`(?m)^([ \t]*)(?:([A-Za-z_][A-Za-z0-9_]*)[ \t]+)?"sync"[ \t]*$`)
	reAtomic := regexp.MustCompile(`(?m)^([ \t]*)(?:([A-Za-z_][A-Za-z0-9_]*)[ \t]+)?"sync/atomic"[ \t]*$`)
	reSyncSingle := regexp.MustCompile(`(?m)^import[ \t]+(?:([A-Za-z_][A-Za-z0-9_]*)[ \t]+)?"sync"[ \t]*$`)
	reAtomicSingle := regexp.MustCompile(`(?m)^import[ \t]+(?:([A-Za-z_][A-Za-z0-9_]*)[ \t]+)?"sync/atomic"[ \t]*$`)
	rewritten := 0
	for _, dir := range []string{*repo, filepath.Join(*repo, "post")} {
		ents, err := os.ReadDir(dir)
		if err != nil {
			die("%v", err)
		}
		for _, e := range ents {
			name := e.Name()
			if e.IsDir() || !strings.HasSuffix(name, ".go") || strings.HasSuffix(name, "_test.go") {
				continue
			}
			path := filepath.Join(dir, name)
			srcPath := path
			if o, ok := override[path]; ok {
				srcPath = o
				repl[path] = o
			}
			b, err := os.ReadFile(srcPath)
			if err != nil {
				die("%v", err)
			}
			fset := token.NewFileSet()
			f, err := parser.ParseFile(fset, path, b, parser.ImportsOnly)
			if err != nil {
				// the tree does not build: let go build report it, not us
				continue
			}
			has := false
			for _, im := range f.Imports {
				if im.Path.Value == `"sync"` || im.Path.Value == `"sync/atomic"` {
					has = true
				}
			}
			if !has {
				continue
			}
			src := string(b)
			sub := func(re *regexp.Regexp, single bool, def, to string) {
				src = re.ReplaceAllStringFunc(src, func(m string) string {
					g := re.FindStringSubmatch(m)
					if single {
						alias := g[1]
						if alias == "" {
							alias = def
						}
						return "import " + alias + ` "` + to + `"`
					}
					alias := g[2]
					if alias == "" {
						alias = def
					}
					return g[1] + alias + ` "` + to + `"`
				})
			}
			sub(reSyncSingle, true, "sync", "github.com/go-openapi/validate/verifrt/vsync")
			sub(reAtomicSingle, true, "atomic", "github.com/go-openapi/validate/verifrt/vatomic")
			sub(reSync, false, "sync", "github.com/go-openapi/validate/verifrt/vsync")
			sub(reAtomic, false, "atomic", "github.com/go-openapi/validate/verifrt/vatomic")
			// verify
			f2, err := parser.ParseFile(token.NewFileSet(), path, src, parser.ImportsOnly)
			if err != nil {
				die("rewritten %s does not parse: %v", path, err)
			}
			for _, im := range f2.Imports {
				if im.Path.Value == `"sync"` || im.Path.Value == `"sync/atomic"` {
					die("import rewrite of %s incomplete", path)
				}
			}
			rel, _ := filepath.Rel(*repo, path)
			dst := filepath.Join(*out, "repo", rel)
			os.MkdirAll(filepath.Dir(dst), 0o755)
			if err := os.WriteFile(dst, []byte(src), 0o644); err != nil {
				die("%v", err)
			}
			repl[path] = dst
			rewritten++
		}
	}

	// 2. shim packages as virtual dirs of the validate module
	addDir := func(srcDir, dstDir string) {
		ents, err := os.ReadDir(srcDir)
		if err != nil {
			die("%v", err)
		}
		for _, e := range ents {
			if e.IsDir() {
				continue
			}
			repl[filepath.Join(dstDir, e.Name())] = filepath.Join(srcDir, e.Name())
		}
	}
	addDir(filepath.Join(*rt, "verifrt"), filepath.Join(*repo, "verifrt"))
	addDir(filepath.Join(*rt, "vsync"), filepath.Join(*repo, "verifrt", "vsync"))
	addDir(filepath.Join(*rt, "vatomic"), filepath.Join(*repo, "verifrt", "vatomic"))

	// 3. export file
	repl[filepath.Join(*repo, "zz_verif_export.go")] = filepath.Join(*rt, "export", "zz_verif_export.go")

	// 4. runtime patch
	goroot := runtime.GOROOT()
	if g := os.Getenv("VERIF_GOROOT"); g != "" {
		goroot = g
	}
	rtdir := filepath.Join(goroot, "src", "runtime")
	patch := func(name string, subs [][3]any, forbid string) {
		p := filepath.Join(rtdir, name)
		b, err := os.ReadFile(p)
		if err != nil {
			die("%v", err)
		}
		s := string(b)
		for _, su := range subs {
			old, nw, cnt := su[0].(string), su[1].(string), su[2].(int)
			if c := strings.Count(s, old); c != cnt {
				die("runtime/%s: expected %d occurrences of %q, found %d (unsupported Go version %s)", name, cnt, old, c, runtime.Version())
			}
			s = strings.ReplaceAll(s, old, nw)
		}
		if forbid != "" {
			for _, line := range strings.Split(s, "\n") {
				code := line
				if i := strings.Index(code, "//"); i >= 0 {
					code = code[:i]
				}
				if strings.Contains(code, forbid) {
					die("runtime/%s: unpatched %q remains: %s", name, forbid, line)
				}
			}
		}
		dst := filepath.Join(*out, "runtime", name)
		os.MkdirAll(filepath.Dir(dst), 0o755)
		if err := os.WriteFile(dst, []byte(s), 0o644); err != nil {
			die("%v", err)
		}
		repl[p] = dst
	}
	patch("map.go", [][3]any{
		{"r := uintptr(rand())", "r := uintptr(verifMapIterRand(h))", 1},
		{"r := int(rand())", "r := int(verifMapIterRand(h))", 2},
		{"uint32(rand())", "uint32(verifConstRand())", 5},
	}, "rand()")
	for _, n := range []string{"map_fast32.go", "map_fast64.go", "map_faststr.go"} {
		patch(n, [][3]any{{"uint32(rand())", "uint32(verifConstRand())", 1}}, "rand()")
	}
	patch("alg.go", [][3]any{
		{"hashkey[i] = uintptr(bootstrapRand())", "hashkey[i] = uintptr(verifBootRand())", 1},
		{"key[i] = bootstrapRand()", "key[i] = verifBootRand()", 1},
	}, "bootstrapRand()")
	repl[filepath.Join(rtdir, "zz_verif_map.go")] = filepath.Join(*rt, "runtimepatch", "zz_verif_map.go.txt")

	for k, v := range override {
		if _, done := repl[k]; !done {
			repl[k] = v // files added by the override (not present in the tree)
		}
	}

	ob, _ := json.MarshalIndent(map[string]any{"Replace": repl}, "", " ")
	if err := os.WriteFile(filepath.Join(*out, "overlay.json"), ob, 0o644); err != nil {
		die("%v", err)
	}
	fmt.Printf("mkoverlay: %d files rewritten, %d overlay entries\n", rewritten, len(repl))
}
