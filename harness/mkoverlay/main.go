// mkoverlay writes a `go build -overlay` file that instruments the CURRENT working tree of the
// repository without touching it:
//
//  1. every non-test .go file of packages validate and validate/post importing "sync" or
//     "sync/atomic" is copied with exactly those import specs rewritten to the shim packages;
//  2. the shim packages (verifrt, verifrt/vsync, verifrt/vatomic) are added as virtual directories
//     inside the validate module;
//  3. zz_verif_export.go is added to package validate (read-only observers and resets);
//  4. patched copies of runtime/map*.go and runtime/alg.go make map iteration order an environment
//     answer and bucket layout reproducible.
//
// Any mismatch (file does not parse after rewriting, runtime snippet not found the expected number
// of times) is a harness error: exit 2, no VIOLATION line.
package main

import (
	"encoding/json"
	"flag"
	"fmt"
	"go/ast"
	"go/parser"
	"go/token"
	"os"
	"path/filepath"
	"regexp"
	"runtime"
	"sort"
	"strings"
)

func die(f string, a ...any) {
	fmt.Fprintf(os.Stderr, "mkoverlay: "+f+"\n", a...)
	os.Exit(2)
}

func main() {
	repo := flag.String("repo", "/repo", "repository working tree")
	rt := flag.String("rt", "/verif/harness/rt", "directory holding the shim sources")
	out := flag.String("out", "", "output directory (overlay.json and rewritten files)")
	extra := flag.String("extra", "", "optional JSON file {path: replacement} merged last (mutation experiments)")
	flag.Parse()
	if *out == "" {
		die("-out required")
	}
	if err := os.MkdirAll(*out, 0o755); err != nil {
		die("%v", err)
	}
	repl := map[string]string{}
	// source overrides (mutation experiments, candidate fixes): path in the repository -> file to use
	// instead. They are applied BEFORE the import rewrite so that an overridden pools.go / rexp.go
	// still gets the shims.
	override := map[string]string{}
	if *extra != "" {
		b, err := os.ReadFile(*extra)
		if err != nil {
			die("%v", err)
		}
		if err := json.Unmarshal(b, &override); err != nil {
			die("%v", err)
		}
	}

	// 1. import rewrite
	reSync := regexp.MustCompile(`(?m)^([ \t]*)(?:([A-Za-z_][A-Za-z0-9_]*)[ \t]+)?"sync"[ \t]*$`)
	reAtomic := regexp.MustCompile(`(?m)^([ \t]*)(?:([A-Za-z_][A-Za-z0-9_]*)[ \t]+)?"sync/atomic"[ \t]*$`)
	reSyncSingle := regexp.MustCompile(`(?m)^import[ \t]+(?:([A-Za-z_][A-Za-z0-9_]*)[ \t]+)?"sync"[ \t]*$`)
	reAtomicSingle := regexp.MustCompile(`(?m)^import[ \t]+(?:([A-Za-z_][A-Za-z0-9_]*)[ \t]+)?"sync/atomic"[ \t]*$`)
	rewritten := 0
	facts := newFacts()
	for _, dir := range []string{*repo, filepath.Join(*repo, "post")} {
		ents, err := os.ReadDir(dir)
		if err != nil {
			die("%v", err)
		}
		for _, e := range ents {
			name := e.Name()
			if e.IsDir() || !strings.HasSuffix(name, ".go") || strings.HasSuffix(name, "_test.go") {
				continue
			}
			path := filepath.Join(dir, name)
			srcPath := path
			if o, ok := override[path]; ok {
				srcPath = o
				repl[path] = o
			}
			b, err := os.ReadFile(srcPath)
			if err != nil {
				die("%v", err)
			}
			if dir == *repo {
				facts.scan(path, b)
			}
			fset := token.NewFileSet()
			f, err := parser.ParseFile(fset, path, b, parser.ImportsOnly)
			if err != nil {
				// the tree does not build: let go build report it, not us
				continue
			}
			has := false
			for _, im := range f.Imports {
				if im.Path.Value == `"sync"` || im.Path.Value == `"sync/atomic"` {
					has = true
				}
			}
			if !has {
				continue
			}
			src := string(b)
			sub := func(re *regexp.Regexp, single bool, def, to string) {
				src = re.ReplaceAllStringFunc(src, func(m string) string {
					g := re.FindStringSubmatch(m)
					if single {
						alias := g[1]
						if alias == "" {
							alias = def
						}
						return "import " + alias + ` "` + to + `"`
					}
					alias := g[2]
					if alias == "" {
						alias = def
					}
					return g[1] + alias + ` "` + to + `"`
				})
			}
			sub(reSyncSingle, true, "sync", "github.com/go-openapi/validate/verifrt/vsync")
			sub(reAtomicSingle, true, "atomic", "github.com/go-openapi/validate/verifrt/vatomic")
			sub(reSync, false, "sync", "github.com/go-openapi/validate/verifrt/vsync")
			sub(reAtomic, false, "atomic", "github.com/go-openapi/validate/verifrt/vatomic")
			// verify
			f2, err := parser.ParseFile(token.NewFileSet(), path, src, parser.ImportsOnly)
			if err != nil {
				die("rewritten %s does not parse: %v", path, err)
			}
			for _, im := range f2.Imports {
				if im.Path.Value == `"sync"` || im.Path.Value == `"sync/atomic"` {
					die("import rewrite of %s incomplete", path)
				}
			}
			rel, _ := filepath.Rel(*repo, path)
			dst := filepath.Join(*out, "repo", rel)
			os.MkdirAll(filepath.Dir(dst), 0o755)
			if err := os.WriteFile(dst, []byte(src), 0o644); err != nil {
				die("%v", err)
			}
			repl[path] = dst
			rewritten++
		}
	}

	// 2. shim packages as virtual dirs of the validate module
	addDir := func(srcDir, dstDir string) {
		ents, err := os.ReadDir(srcDir)
		if err != nil {
			die("%v", err)
		}
		for _, e := range ents {
			if e.IsDir() {
				continue
			}
			repl[filepath.Join(dstDir, e.Name())] = filepath.Join(srcDir, e.Name())
		}
	}
	addDir(filepath.Join(*rt, "verifrt"), filepath.Join(*repo, "verifrt"))
	addDir(filepath.Join(*rt, "vsync"), filepath.Join(*repo, "verifrt", "vsync"))
	addDir(filepath.Join(*rt, "vatomic"), filepath.Join(*repo, "verifrt", "vatomic"))

	// 3. export file, generated to fit the internals the working tree actually has (a refactoring of
	// the regexp cache or of the pools must degrade an observer, not break the build of every check)
	exp := filepath.Join(*out, "repo", "zz_verif_export.go")
	os.MkdirAll(filepath.Dir(exp), 0o755)
	if err := os.WriteFile(exp, []byte(facts.exportFile()), 0o644); err != nil {
		die("%v", err)
	}
	repl[filepath.Join(*repo, "zz_verif_export.go")] = exp

	// 4. runtime patch
	goroot := runtime.GOROOT()
	if g := os.Getenv("VERIF_GOROOT"); g != "" {
		goroot = g
	}
	rtdir := filepath.Join(goroot, "src", "runtime")
	patch := func(name string, subs [][3]any, forbid string) {
		p := filepath.Join(rtdir, name)
		b, err := os.ReadFile(p)
		if err != nil {
			die("%v", err)
		}
		s := string(b)
		for _, su := range subs {
			old, nw, cnt := su[0].(string), su[1].(string), su[2].(int)
			if c := strings.Count(s, old); c != cnt {
				die("runtime/%s: expected %d occurrences of %q, found %d (unsupported Go version %s)", name, cnt, old, c, runtime.Version())
			}
			s = strings.ReplaceAll(s, old, nw)
		}
		if forbid != "" {
			for _, line := range strings.Split(s, "\n") {
				code := line
				if i := strings.Index(code, "//"); i >= 0 {
					code = code[:i]
				}
				if strings.Contains(code, forbid) {
					die("runtime/%s: unpatched %q remains: %s", name, forbid, line)
				}
			}
		}
		dst := filepath.Join(*out, "runtime", name)
		os.MkdirAll(filepath.Dir(dst), 0o755)
		if err := os.WriteFile(dst, []byte(s), 0o644); err != nil {
			die("%v", err)
		}
		repl[p] = dst
	}
	patch("map.go", [][3]any{
		{"r := uintptr(rand())", "r := uintptr(verifMapIterRand(h))", 1},
		{"r := int(rand())", "r := int(verifMapIterRand(h))", 2},
		{"uint32(rand())", "uint32(verifConstRand())", 5},
	}, "rand()")
	for _, n := range []string{"map_fast32.go", "map_fast64.go", "map_faststr.go"} {
		patch(n, [][3]any{{"uint32(rand())", "uint32(verifConstRand())", 1}}, "rand()")
	}
	patch("alg.go", [][3]any{
		{"hashkey[i] = uintptr(bootstrapRand())", "hashkey[i] = uintptr(verifBootRand())", 1},
		{"key[i] = bootstrapRand()", "key[i] = verifBootRand()", 1},
	}, "bootstrapRand()")
	repl[filepath.Join(rtdir, "zz_verif_map.go")] = filepath.Join(*rt, "runtimepatch", "zz_verif_map.go.txt")

	for k, v := range override {
		if _, done := repl[k]; !done {
			repl[k] = v // files added by the override (not present in the tree)
		}
	}

	ob, _ := json.MarshalIndent(map[string]any{"Replace": repl}, "", " ")
	if err := os.WriteFile(filepath.Join(*out, "overlay.json"), ob, 0o644); err != nil {
		die("%v", err)
	}
	fmt.Printf("mkoverlay: %d files rewritten, %d overlay entries\n", rewritten, len(repl))
}

// ---- facts about the internals of package validate, gathered syntactically ---------------------

type repoFacts struct {
	funcs   map[string]bool            // top-level functions
	methods map[string]bool            // method names (any receiver)
	vars    map[string]string          // package-level variable -> source text of its initialiser ("" if none)
	fields  map[string]map[string]bool // struct type -> field names
}

func newFacts() *repoFacts {
	return &repoFacts{funcs: map[string]bool{}, methods: map[string]bool{}, vars: map[string]string{}, fields: map[string]map[string]bool{}}
}

func (r *repoFacts) scan(path string, src []byte) {
	if strings.HasSuffix(path, "pools_debug.go") {
		return // alternative build of pools.go (tag validatedebug), never compiled here
	}
	fset := token.NewFileSet()
	f, err := parser.ParseFile(fset, path, src, 0)
	if err != nil {
		return // go build will say so
	}
	text := func(n ast.Node) string {
		return string(src[fset.Position(n.Pos()).Offset:fset.Position(n.End()).Offset])
	}
	for _, d := range f.Decls {
		switch t := d.(type) {
		case *ast.FuncDecl:
			if t.Recv == nil {
				r.funcs[t.Name.Name] = true
			} else {
				r.methods[t.Name.Name] = true
			}
		case *ast.GenDecl:
			for _, sp := range t.Specs {
				switch v := sp.(type) {
				case *ast.ValueSpec:
					if t.Tok != token.VAR {
						continue
					}
					for i, n := range v.Names {
						init := ""
						if i < len(v.Values) {
							init = text(v.Values[i])
						} else if v.Type != nil {
							init = "type " + text(v.Type)
						}
						r.vars[n.Name] = init
					}
				case *ast.TypeSpec:
					if st, ok := v.Type.(*ast.StructType); ok {
						m := map[string]bool{}
						for _, fl := range st.Fields.List {
							for _, n := range fl.Names {
								m[n.Name] = true
							}
						}
						r.fields[v.Name.Name] = m
					}
				}
			}
		}
	}
}

// lockedClear wraps the assignments in the cache mutex when there is one.
func lockedClear(hasMutex bool, body string) string {
	if body == "" {
		return ""
	}
	if hasMutex {
		return "\tcacheMutex.Lock()\n" + body + "\tcacheMutex.Unlock()\n"
	}
	return body
}

func (r *repoFacts) hasFields(typ string, names ...string) bool {
	m := r.fields[typ]
	if m == nil {
		return false
	}
	for _, n := range names {
		if !m[n] {
			return false
		}
	}
	return true
}

// exportFile assembles zz_verif_export.go from the variants that fit. Every observer keeps its name
// and signature; a variant that cannot be offered is replaced by a harmless stand-in and named in
// VerifDegraded (the checks mention it in their evidence and skip the oracle that needed it).
func (r *repoFacts) exportFile() string {
	var b, degraded strings.Builder
	needFmt := false
	deg := func(s string) { fmt.Fprintf(&degraded, "%q, ", s) }

	// pools
	if r.funcs["resetPools"] {
		b.WriteString("// VerifResetPools installs fresh, empty pools.\nfunc VerifResetPools() { resetPools() }\n\n")
	} else {
		deg("reset-pools")
		b.WriteString("func VerifResetPools() {}\n\n")
	}

	// regexp cache: besides reDict itself, every other package-level map of compiled expressions (a
	// spare snapshot, a negative cache ...) is emptied with the cache, so that executions start from
	// the same state whatever came before
	var spare []string
	for name, init := range r.vars {
		if name != "reDict" && strings.Contains(init, "map[string]") && strings.Contains(init, "Regexp") {
			spare = append(spare, name)
		}
	}
	sort.Strings(spare)
	clearSpare := ""
	for _, n := range spare {
		clearSpare += "\t" + n + " = nil\n"
	}
	init, has := r.vars["reDict"]
	_, hasMutex := r.vars["cacheMutex"]
	switch {
	case has && strings.Contains(init, "atomic.Value"):
		b.WriteString(`// VerifRegexpCache returns pattern key -> source text of the cached expression.
func VerifRegexpCache() map[string]string {
	out := map[string]string{}
	if cache, ok := reDict.Load().(map[string]*re.Regexp); ok {
		for k, v := range cache {
			if v == nil {
				out[k] = "<nil>"
			} else {
				out[k] = v.String()
			}
		}
	}
	return out
}

// VerifSetRegexpCache replaces the cache content (harness: start states of the cache protocol).
func VerifSetRegexpCache(patterns ...string) {
	m := map[string]*re.Regexp{}
	for _, p := range patterns {
		m[p] = re.MustCompile(p)
	}
` + lockedClear(hasMutex, clearSpare) + `	reDict.Store(m)
}

`)
	case has && hasMutex && strings.Contains(init, "map[string]*") && strings.Contains(init, "Regexp"):
		b.WriteString(`// the cache is a plain map guarded by cacheMutex in this tree
func VerifRegexpCache() map[string]string {
	cacheMutex.Lock()
	defer cacheMutex.Unlock()
	out := map[string]string{}
	for k, v := range reDict {
		if v == nil {
			out[k] = "<nil>"
		} else {
			out[k] = v.String()
		}
	}
	return out
}

func VerifSetRegexpCache(patterns ...string) {
	cacheMutex.Lock()
	defer cacheMutex.Unlock()
	for k := range reDict {
		delete(reDict, k)
	}
	for _, p := range patterns {
		reDict[p] = re.MustCompile(p)
	}
` + clearSpare + `}

`)
	default:
		deg("regexp-cache")
		b.WriteString("func VerifRegexpCache() map[string]string { return nil }\n\nfunc VerifSetRegexpCache(patterns ...string) { _ = re.MustCompile }\n\n")
	}

	// results pool
	_, hasPools := r.vars["pools"]
	poolField := false
	for _, m := range r.fields {
		if m["poolOfResults"] {
			poolField = true
		}
	}
	if hasPools && poolField && r.methods["BorrowResult"] && r.methods["RedeemResult"] {
		b.WriteString("// VerifBorrowResult hands out a pooled result exactly as internal callers get it.\nfunc VerifBorrowResult() *Result { return pools.poolOfResults.BorrowResult() }\n\n// VerifRedeemResult gives a result back to the pool.\nfunc VerifRedeemResult(r *Result) { pools.poolOfResults.RedeemResult(r) }\n\n")
	} else {
		deg("results-pool")
		b.WriteString("func VerifBorrowResult() *Result { return new(Result) }\n\nfunc VerifRedeemResult(r *Result) {}\n\n")
	}

	// private option used by AgainstSchema
	if r.funcs["withRecycleResults"] {
		b.WriteString("// VerifWithRecycleResults exposes the private option AgainstSchema uses (results borrowed from the pool).\nfunc VerifWithRecycleResults() Option { return withRecycleResults(true) }\n\n")
	} else {
		deg("recycle-results-option")
		b.WriteString("func VerifWithRecycleResults() Option { return func(*SchemaValidatorOptions) {} }\n\n")
	}

	// shared sentinel result
	_, hasSentinel := r.vars["emptyResult"]
	switch {
	case hasSentinel && r.hasFields("Result", "Errors", "Warnings", "MatchCount", "wantsRedeemOnMerge", "data", "rootObjectSchemata", "fieldSchemata", "itemSchemata") && r.methods["Len"]:
		needFmt = true
		b.WriteString(`// VerifSentinelState describes how the shared "valid, nothing to say" result (returned by many
// validators instead of a fresh one) differs from its initial value; "" when it is pristine.
func VerifSentinelState() string {
	r := emptyResult
	if len(r.Errors) == 0 && len(r.Warnings) == 0 && r.MatchCount == 1 && !r.wantsRedeemOnMerge && r.data == nil &&
		r.rootObjectSchemata.Len() == 0 && len(r.fieldSchemata) == 0 && len(r.itemSchemata) == 0 {
		return ""
	}
	return fmt.Sprintf("errors=%d warnings=%d matchCount=%d pooled=%v schemata=%d/%d/%d", len(r.Errors), len(r.Warnings), r.MatchCount,
		r.wantsRedeemOnMerge, r.rootObjectSchemata.Len(), len(r.fieldSchemata), len(r.itemSchemata))
}

// VerifRestoreSentinel puts the shared result back into its initial state (harness: executions
// must not influence each other).
func VerifRestoreSentinel() { *emptyResult = Result{MatchCount: 1} }

`)
	case hasSentinel && r.hasFields("Result", "Errors", "Warnings", "MatchCount"):
		needFmt = true
		deg("sentinel-private-fields")
		b.WriteString(`func VerifSentinelState() string {
	r := emptyResult
	if len(r.Errors) == 0 && len(r.Warnings) == 0 && r.MatchCount == 1 {
		return ""
	}
	return fmt.Sprintf("errors=%d warnings=%d matchCount=%d", len(r.Errors), len(r.Warnings), r.MatchCount)
}

func VerifRestoreSentinel() { *emptyResult = Result{MatchCount: 1} }

`)
	default:
		deg("sentinel")
		b.WriteString("func VerifSentinelState() string { return \"\" }\n\nfunc VerifRestoreSentinel() {}\n\n")
	}

	head := "package validate\n\n// Generated by mkoverlay for THIS working tree (never on disk in the repository): observers and\n// resets the oracles need. Nothing here changes behaviour of the library.\n\nimport (\n"
	if needFmt {
		head += "\t\"fmt\"\n"
	}
	head += "\tre \"regexp\"\n)\n\n"
	head += "// VerifDegraded names the observers this tree's internals do not allow (empty on the pinned tree).\nfunc VerifDegraded() []string { return []string{" + degraded.String() + "} }\n\n"
	return head + b.String()
}
