// Package hx holds what every check shares: the report/evidence format, known-findings matching,
// worker sharding, outcome normalisation.
package hx

import (
	"bufio"
	"crypto/sha1"
	"encoding/hex"
	"encoding/json"
	"fmt"
	"os"
	"os/exec"
	"path/filepath"
	"sort"
	"strconv"
	"strings"
	"sync"
	"time"
)

// VerifDir is the verification root (the directory holding MANIFEST.json); bin/check exports it.
var VerifDir = func() string {
	if d := os.Getenv("VERIF_DIR"); d != "" {
		return d
	}
	return "/verif"
}()

// Violation is one property violation, already shrunk / canonicalised by the check that found it.
type Violation struct {
	Signature string `json:"signature"` // canonical minimal failing case; equality decides "known"
	What      string `json:"what"`      // one line for humans
	Replay    any    `json:"replay"`    // everything needed to re-execute it
}

// Report is what a check (or one worker of it) produces.
type Report struct {
	Violations []Violation       `json:"violations,omitempty"`
	Counters   map[string]int64  `json:"counters,omitempty"`
	Sets       map[string][]string `json:"sets,omitempty"` // named sets (hashes) whose union sizes are reported
	Samples    []any             `json:"samples,omitempty"`
	Notes      []string          `json:"notes,omitempty"`
	Exhaustive bool              `json:"exhaustive"`
	HarnessErr string            `json:"harness_err,omitempty"`
}

func NewReport() *Report {
	return &Report{Counters: map[string]int64{}, Sets: map[string][]string{}, Exhaustive: true}
}

func (r *Report) Inc(k string, n int64) { r.Counters[k] += n }

// SetAdder deduplicates locally before shipping hashes to the coordinator.
type SetAdder struct {
	m map[string]map[string]struct{}
}

func NewSetAdder() *SetAdder { return &SetAdder{m: map[string]map[string]struct{}{}} }

func (s *SetAdder) Add(set, item string) {
	mm := s.m[set]
	if mm == nil {
		mm = map[string]struct{}{}
		s.m[set] = mm
	}
	if len(item) > 24 {
		item = Hash(item)
	}
	mm[item] = struct{}{}
}

func (s *SetAdder) Len(set string) int { return len(s.m[set]) }

func (s *SetAdder) Flush(r *Report) {
	for k, mm := range s.m {
		l := make([]string, 0, len(mm))
		for it := range mm {
			l = append(l, it)
		}
		sort.Strings(l)
		r.Sets[k] = append(r.Sets[k], l...)
	}
}

func (r *Report) AddViolation(v Violation) {
	for _, o := range r.Violations {
		if o.Signature == v.Signature {
			return
		}
	}
	if len(r.Violations) < 400 {
		r.Violations = append(r.Violations, v)
	} else {
		r.Inc("violations_dropped_over_cap", 1)
	}
}

func (r *Report) Merge(o *Report) {
	for _, v := range o.Violations {
		r.AddViolation(v)
	}
	for k, v := range o.Counters {
		r.Counters[k] += v
	}
	for k, v := range o.Sets {
		r.Sets[k] = append(r.Sets[k], v...)
	}
	for _, s := range o.Samples {
		if len(r.Samples) < 12 {
			r.Samples = append(r.Samples, s)
		}
	}
	r.Notes = append(r.Notes, o.Notes...)
	if !o.Exhaustive {
		r.Exhaustive = false
	}
	if o.HarnessErr != "" && r.HarnessErr == "" {
		r.HarnessErr = o.HarnessErr
	}
}

func (r *Report) SetSize(k string) int {
	m := map[string]struct{}{}
	for _, x := range r.Sets[k] {
		m[x] = struct{}{}
	}
	return len(m)
}

func Hash(s string) string {
	h := sha1.Sum([]byte(s))
	return hex.EncodeToString(h[:8])
}

// JSON renders v canonically (sorted keys courtesy of encoding/json for maps).
func JSON(v any) string {
	b, err := json.Marshal(v)
	if err != nil {
		return fmt.Sprintf("<<%v>>", err)
	}
	return string(b)
}

// ------------------------------------------------------------------------------------------

// Ctx is the invocation context of a check.
type Ctx struct {
	ID      string
	Tier    string // quick | thorough
	Seed    int
	Worker  int // -1 in the coordinator
	Workers int
	Args    []string // extra worker args
	Start   time.Time
	Budget  time.Duration // soft internal deadline (exit 0, exhaustive:false)
}

func (c *Ctx) Quick() bool { return c.Tier != "thorough" }

func (c *Ctx) Expired() bool {
	if c.Budget > 0 && time.Since(c.Start) > c.Budget {
		return true
	}
	return memoryHigh()
}

// memoryHigh: the process uses more than 2.5 GB of resident memory (16 workers share the machine; the
// race detector's shadow memory is not visible to the Go heap statistics, hence /proc). Treated like the
// time budget: the run ends with what it has, exhaustive:false, exit 0 - never with a killed worker.
func memoryHigh() bool {
	memChecks++
	if memChecks%64 != 1 {
		return memWasHigh
	}
	b, err := os.ReadFile("/proc/self/statm")
	if err != nil {
		return false
	}
	f := strings.Fields(string(b))
	if len(f) < 2 {
		return false
	}
	pages, _ := strconv.ParseInt(f[1], 10, 64)
	memWasHigh = pages*int64(os.Getpagesize()) > 2500<<20
	return memWasHigh
}

var (
	memChecks  int
	memWasHigh bool
)

// RunWorkers re-executes this binary n times (`<self> <ID> <tier> --worker i/n extra...`), at most
// par at a time, and merges their reports. A worker that dies (fatal error, panic, kill) yields a
// violation attributed to the last case it announced on its progress line ("@case <text>").
func (c *Ctx) RunWorkers(n, par int, extra ...string) *Report {
	total := NewReport()
	var mu sync.Mutex
	sem := make(chan struct{}, par)
	var wg sync.WaitGroup
	self, _ := os.Executable()
	for i := 0; i < n; i++ {
		wg.Add(1)
		sem <- struct{}{}
		go func(i int) {
			defer wg.Done()
			defer func() { <-sem }()
			rep, crash := c.runWorker(self, i, n, extra)
			mu.Lock()
			defer mu.Unlock()
			if rep != nil {
				total.Merge(rep)
			}
			if crash != "" {
				total.Notes = append(total.Notes, crash)
				if total.HarnessErr == "" && rep == nil {
					total.HarnessErr = crash
				}
			}
		}(i)
	}
	wg.Wait()
	return total
}

// WorkerCrash describes an abnormal worker end.
type WorkerCrash struct {
	LastCase string
	Output   string
	Exit     string
}

// CrashHandler lets a check turn a crashed worker into violations (it re-runs the announced case in
// isolation). When nil, a crash is a harness error.
var CrashHandler func(c *Ctx, wc WorkerCrash) *Report

func (c *Ctx) runWorker(self string, i, n int, extra []string) (*Report, string) {
	dir, err := os.MkdirTemp(filepath.Join(VerifDir, ".work"), "w")
	if err != nil {
		return nil, err.Error()
	}
	defer os.RemoveAll(dir)
	args := []string{c.ID, c.Tier, "--worker", fmt.Sprintf("%d/%d", i, n)}
	args = append(args, extra...)
	cmd := exec.Command(self, args...)
	cmd.Dir = dir // empty cwd: a $ref with a plain-word value is opened relative to cwd
	cmd.Env = append(os.Environ(), "GOMAXPROCS=1", "VERIF_SEED="+strconv.Itoa(c.Seed), "GOTRACEBACK=single")
	if c.Budget > 0 {
		left := c.Budget - time.Since(c.Start)
		if left < time.Second {
			left = time.Second
		}
		cmd.Env = append(cmd.Env, "VERIF_BUDGET_S="+strconv.Itoa(int(left.Seconds())))
	}
	out, err := cmd.StdoutPipe()
	if err != nil {
		return nil, err.Error()
	}
	var errb strings.Builder
	cmd.Stderr = &limitedWriter{w: &errb, n: 16000}
	if err := cmd.Start(); err != nil {
		return nil, err.Error()
	}
	var rep *Report
	last := ""
	sc := bufio.NewScanner(out)
	sc.Buffer(make([]byte, 1<<20), 1<<30)
	for sc.Scan() {
		line := sc.Text()
		if strings.HasPrefix(line, "@case ") {
			last = line[6:]
			continue
		}
		if strings.HasPrefix(line, "@report ") {
			r := NewReport()
			if e := json.Unmarshal([]byte(line[8:]), r); e == nil {
				rep = r
			}
			continue
		}
	}
	werr := cmd.Wait()
	if werr != nil || rep == nil {
		wc := WorkerCrash{LastCase: last, Output: head(errb.String(), 3000), Exit: fmt.Sprint(werr)}
		if CrashHandler != nil {
			r := CrashHandler(c, wc)
			if r != nil {
				r.Exhaustive = false
				return r, fmt.Sprintf("worker %d/%d ended abnormally (%v) at case %s", i, n, werr, last)
			}
		}
		return nil, fmt.Sprintf("worker %d/%d ended abnormally (%v) at case %q: %s ... %s", i, n, werr, last, head(errb.String(), 1200), tail(errb.String(), 600))
	}
	return rep, ""
}

type limitedWriter struct {
	w *strings.Builder
	n int
}

func (l *limitedWriter) Write(p []byte) (int, error) {
	if l.w.Len() < l.n {
		l.w.Write(p)
	}
	return len(p), nil
}

func head(s string, n int) string {
	if len(s) > n {
		return s[:n]
	}
	return s
}

func tail(s string, n int) string {
	if len(s) > n {
		return s[len(s)-n:]
	}
	return s
}

// AnnounceCase is printed by workers before a case that might kill the process.
func AnnounceCase(s string) { fmt.Println("@case " + s) }

// EmitWorkerReport ends a worker.
func EmitWorkerReport(r *Report) {
	os.Stdout.WriteString("@report " + JSON(r) + "\n")
}

// ------------------------------------------------------------------------------------------

// Known findings.
type Finding struct {
	Property  string `json:"property"`
	Status    string `json:"status"` // known | fixed
	Signature string `json:"signature"`
	What      string `json:"what"`
	Commit    string `json:"commit,omitempty"`
}

func LoadFindings() ([]Finding, error) {
	b, err := os.ReadFile(filepath.Join(VerifDir, "known_findings.json"))
	if err != nil {
		if os.IsNotExist(err) {
			return nil, nil
		}
		return nil, err
	}
	var f struct {
		Findings []Finding `json:"findings"`
	}
	if err := json.Unmarshal(b, &f); err != nil {
		return nil, err
	}
	return f.Findings, nil
}

// Evidence file.
type Evidence struct {
	PropertyID  string         `json:"property_id"`
	Tier        string         `json:"tier"`
	Seed        int            `json:"seed"`
	Level       string         `json:"level"`
	Coverage    map[string]any `json:"coverage"`
	Assumptions []string       `json:"assumptions"`
	WallS       float64        `json:"wall_s"`
	Violations  int            `json:"violations"`
	Known       []string       `json:"known_findings_matched,omitempty"`
	Notes       []string       `json:"notes,omitempty"`
}

// Finish prints the verdict lines, writes replay files and the evidence file, and returns the exit
// code. cov is filled by the check from the merged report.
// ExtraAssumptions is appended to the assumptions of every evidence file (set by the entry point: e.g.
// observers that the internals of the tree under test do not allow).
var ExtraAssumptions []string

func Finish(c *Ctx, level string, rep *Report, cov map[string]any, assumptions []string) int {
	assumptions = append(append([]string{}, assumptions...), ExtraAssumptions...)
	if rep.HarnessErr != "" {
		fmt.Fprintf(os.Stderr, "HARNESS-ERROR property=%s %s\n", c.ID, rep.HarnessErr)
		return 2
	}
	findings, err := LoadFindings()
	if err != nil {
		fmt.Fprintf(os.Stderr, "HARNESS-ERROR cannot read known findings: %v\n", err)
		return 2
	}
	known := map[string]Finding{}
	for _, f := range findings {
		if f.Property == c.ID && f.Status == "known" {
			known[f.Signature] = f
		}
	}
	var knownHit []string
	newV := 0
	os.MkdirAll(filepath.Join(VerifDir, "replay"), 0o755)
	sort.Slice(rep.Violations, func(i, j int) bool { return rep.Violations[i].Signature < rep.Violations[j].Signature })
	for _, v := range rep.Violations {
		if f, ok := known[v.Signature]; ok {
			fmt.Printf("KNOWN-FINDING: property=%s %s\n", c.ID, f.What)
			knownHit = append(knownHit, f.What)
			continue
		}
		newV++
		path := filepath.Join(VerifDir, "replay", c.ID+"-"+Hash(v.Signature)+".json")
		b, _ := json.MarshalIndent(map[string]any{"property": c.ID, "signature": v.Signature, "what": v.What, "replay": v.Replay}, "", " ")
		os.WriteFile(path, b, 0o644)
		fmt.Printf("VIOLATION property=%s replay=%s\n", c.ID, path)
		fmt.Printf("  what: %s\n  signature: %s\n", v.What, v.Signature)
	}
	cov["exhaustive"] = rep.Exhaustive
	if len(rep.Samples) > 0 {
		if _, ok := cov["samples"]; !ok {
			cov["samples"] = rep.Samples
		}
	}
	for k, v := range rep.Counters {
		if _, ok := cov[k]; !ok {
			cov[k] = v
		}
	}
	ev := Evidence{PropertyID: c.ID, Tier: c.Tier, Seed: c.Seed, Level: level, Coverage: cov, Assumptions: assumptions,
		WallS: time.Since(c.Start).Seconds(), Violations: newV, Known: knownHit, Notes: rep.Notes}
	b, _ := json.MarshalIndent(ev, "", " ")
	os.MkdirAll(filepath.Join(VerifDir, "evidence"), 0o755)
	if err := os.WriteFile(filepath.Join(VerifDir, "evidence", c.ID+".json"), b, 0o644); err != nil {
		fmt.Fprintf(os.Stderr, "HARNESS-ERROR cannot write evidence: %v\n", err)
		return 2
	}
	fmt.Printf("property=%s tier=%s violations=%d known=%d exhaustive=%v wall=%.1fs\n", c.ID, c.Tier, newV, len(knownHit), rep.Exhaustive, ev.WallS)
	if newV > 0 {
		return 1
	}
	return 0
}

// Outcome of a validation: verdict + sorted message sets (or panic text).
type Outcome struct {
	Valid    bool     `json:"valid"`
	Errors   []string `json:"errors,omitempty"`
	Warnings []string `json:"warnings,omitempty"`
	Panic    string   `json:"panic,omitempty"`
}

func (o Outcome) Key() string { return JSON(o) }

func SortedMsgs(errs []error) []string {
	out := make([]string, 0, len(errs))
	seen := map[string]bool{}
	for _, e := range errs {
		if e == nil {
			continue
		}
		m := e.Error()
		if !seen[m] {
			seen[m] = true
			out = append(out, m)
		}
	}
	sort.Strings(out)
	return out
}
