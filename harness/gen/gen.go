// Package gen holds the bounded-exhaustive generators: schema atoms, leaf sub-schemas, instances.
package gen

import (
	"encoding/json"
	"fmt"
	"sort"
	"strings"
)

// Leaves are the sub-schemas used to fill slots (simplest first).
var Leaves = []string{
	`{}`,
	`{"type":"integer"}`,
	`{"type":"string","minLength":2}`,
	`{"enum":[null,1]}`,
	`{"not":{}}`,
	`{"type":"object","required":["a"]}`,
	`{"type":"array","items":{"type":"integer"}}`,
	`{"maximum":2}`,
	`{"type":"string","format":"date"}`,
	`{"$ref":"#/definitions/pos"}`,
	`{"$ref":"#/definitions/chain"}`,
	`{"$ref":"#/definitions/obj"}`,
	// a composition whose FIRST branch is itself a composition, followed by something else
	`{"allOf":[{"anyOf":[{"type":"integer"},{"type":"string"}]},{"minimum":0}]}`,
}

// SmallLeaves is the subset used where two or three slots are filled independently.
var SmallLeaves = []string{
	`{}`,
	`{"type":"integer"}`,
	`{"type":"string","minLength":2}`,
	`{"maximum":2}`,
	`{"not":{}}`,
}

// Definitions is added to every root schema that contains a $ref.
const Definitions = `{"pos":{"type":"integer","minimum":1},"chain":{"$ref":"#/definitions/pos"},"obj":{"type":"object","properties":{"a":{"$ref":"#/definitions/pos"}},"required":["a"]},"arr":{"type":"array","items":{"$ref":"#/definitions/pos"}}}`

// BaseAtoms have no slot.
var BaseAtoms = []string{
	`{}`,
	`{"type":"null"}`, `{"type":"boolean"}`, `{"type":"integer"}`, `{"type":"number"}`, `{"type":"string"}`,
	`{"type":"array"}`, `{"type":"object"}`, `{"type":["integer","string"]}`, `{"type":["null","object"]}`,
	`{"enum":[1]}`, `{"enum":[null,1]}`, `{"enum":["a",{"k":[1]}]}`, `{"enum":[[1],true]}`, `{"enum":[2.5,"aa",false]}`,
	`{"maximum":2}`, `{"maximum":2,"exclusiveMaximum":true}`, `{"maximum":2.5}`, `{"maximum":-2}`,
	`{"minimum":2}`, `{"minimum":2,"exclusiveMinimum":true}`, `{"minimum":2.5}`, `{"minimum":-2}`,
	`{"multipleOf":2}`, `{"multipleOf":0.5}`, `{"multipleOf":0.1}`,
	`{"minLength":1}`, `{"minLength":2}`, `{"maxLength":1}`, `{"maxLength":2}`,
	`{"pattern":"^a+$"}`, `{"pattern":"é"}`,
	`{"type":"string","format":"date"}`, `{"type":"string","format":"email"}`, `{"type":"string","format":"uuid"}`,
	`{"type":"string","format":"no-such-format"}`, `{"type":"string","format":"x-even"}`,
	`{"minItems":1}`, `{"minItems":2}`, `{"maxItems":1}`, `{"maxItems":2}`, `{"uniqueItems":true}`,
	`{"minProperties":1}`, `{"maxProperties":1}`,
	`{"required":["a"]}`, `{"required":["a","b"]}`,
	`{"additionalProperties":false}`, `{"additionalProperties":true}`,
	`{"additionalItems":false}`,
	`{"dependencies":{"a":["b"]}}`,
	`{"patternProperties":{"^a":{"type":"integer"}},"additionalProperties":false}`,
	`{"properties":{"a":{"type":"integer"}},"patternProperties":{"^a":{"maximum":2}},"additionalProperties":{"type":"string"}}`,
	`{"properties":{"a":{}},"additionalProperties":false}`,
	// member names that collide with keywords the object validator looks at by NAME (path heuristics of
	// the Swagger-only checks), and unusual names
	`{"properties":{"properties":{"properties":{"properties":{"type":"integer"},"items":{"type":"integer"}}}}}`,
	`{"properties":{"items":{"properties":{"items":{"type":"integer"},"type":{"type":"integer"}}},"default":{"properties":{"example":{"type":"integer"}}}}}`,
	`{"properties":{"":{"type":"integer"},"a.b":{"type":"integer"}},"required":[""]}`,
	// a DECLARED property matched by two pattern properties that disagree about its value
	`{"properties":{"ab":{}},"patternProperties":{"^a":{"type":"integer"},"b$":{"maximum":0}}}`,
}

// slotted atoms: %s is replaced by every leaf
var slot1 = []string{
	`{"items":%s}`,
	`{"additionalItems":%s}`,
	`{"properties":{"a":%s}}`,
	`{"patternProperties":{"^a":%s}}`,
	`{"additionalProperties":%s}`,
	`{"not":%s}`,
	`{"allOf":[%s]}`, `{"anyOf":[%s]}`, `{"oneOf":[%s]}`,
	`{"dependencies":{"a":%s}}`,
	`{"items":[{},{}],"additionalItems":%s}`,
	`{"items":[%s],"additionalItems":false}`,
}

// two independent slots from SmallLeaves
var slot2 = []string{
	`{"items":[%s,%s]}`,
	`{"properties":{"a":%s,"b":%s}}`,
	`{"allOf":[%s,%s]}`, `{"anyOf":[%s,%s]}`, `{"oneOf":[%s,%s]}`,
	`{"properties":{"a":%s},"additionalProperties":%s}`,
}

// three slots, chosen combinations (0, 1, 2, all branches matching for common instances)
var slot3 = []string{`{"allOf":[%s,%s,%s]}`, `{"anyOf":[%s,%s,%s]}`, `{"oneOf":[%s,%s,%s]}`}
var triples = [][3]string{
	{`{"type":"integer"}`, `{"maximum":2}`, `{"type":"string","minLength":2}`},
	{`{"type":"integer"}`, `{"type":"integer"}`, `{"type":"integer"}`},
	{`{"not":{}}`, `{"not":{}}`, `{"type":"string","minLength":2}`},
	{`{"not":{}}`, `{"not":{}}`, `{"not":{}}`},
	{`{}`, `{"type":"integer"}`, `{"not":{}}`},
	// every position of the failing alternative among two matching ones (for an integer <= 2)
	{`{"type":"string","minLength":2}`, `{"type":"integer"}`, `{"maximum":2}`},
	{`{"type":"integer"}`, `{"type":"string","minLength":2}`, `{"maximum":2}`},
}

// Atoms returns every concrete atom (JSON object text), simplest first.
func Atoms() []string {
	out := append([]string(nil), BaseAtoms...)
	for _, t := range slot1 {
		for _, l := range Leaves {
			out = append(out, fmt.Sprintf(t, l))
		}
	}
	for _, t := range slot2 {
		for _, l1 := range SmallLeaves {
			for _, l2 := range SmallLeaves {
				out = append(out, fmt.Sprintf(t, l1, l2))
			}
		}
	}
	for _, t := range slot3 {
		for _, tr := range triples {
			out = append(out, fmt.Sprintf(t, tr[0], tr[1], tr[2]))
		}
	}
	return out
}

// Instances is the instance alphabet (JSON texts), simplest first.
var Instances = []string{
	`null`, `true`, `false`, `0`, `1`, `2`, `2.5`, `3`, `-2`, `900719925474099`, `1000000000.5`, `0.3`,
	`""`, `"a"`, `"aa"`, `"é"`, `"é€"`, `"2020-01-01"`,
	`[]`, `[1]`, `[1,2]`, `[1,1]`, `[1,"x"]`, `[1,2,3]`, `[1,2,3,4,"x"]`, `[null]`, `[[1],[1]]`, `["aa",3]`,
	`{}`, `{"a":1}`, `{"a":"x"}`, `{"a":1,"b":2}`, `{"a":null}`, `{"ab":1}`, `{"id":1}`, `{"$schema":1}`,
	`{"a":{"a":1}}`, `{"a":[1,"x"]}`, `{"b":"aa"}`, `{"a":3,"c":"aa"}`, `{"a":"aa","b":3}`,
	`{"properties":{"properties":{"properties":"x","items":1}}}`, `{"items":{"items":"x","type":1},"default":{"example":"x"}}`, `{"":"x","a.b":"x"}`,
}

// Merge returns the conjunction of atoms (union of keywords) or "" when two atoms share a keyword.
// A root containing $ref anywhere gets the shared definitions.
func Merge(atoms ...string) string {
	m := map[string]json.RawMessage{}
	for _, a := range atoms {
		var x map[string]json.RawMessage
		if err := json.Unmarshal([]byte(a), &x); err != nil {
			panic(err)
		}
		for k, v := range x {
			if _, dup := m[k]; dup {
				return ""
			}
			m[k] = v
		}
	}
	if _, isRef := m["$ref"]; isRef && len(m) > 1 {
		return "" // siblings of $ref are outside the domain
	}
	return WithDefs(render(m))
}

func render(m map[string]json.RawMessage) string {
	ks := make([]string, 0, len(m))
	for k := range m {
		ks = append(ks, k)
	}
	sort.Strings(ks)
	var sb strings.Builder
	sb.WriteByte('{')
	for i, k := range ks {
		if i > 0 {
			sb.WriteByte(',')
		}
		kb, _ := json.Marshal(k)
		sb.Write(kb)
		sb.WriteByte(':')
		sb.Write(m[k])
	}
	sb.WriteByte('}')
	return sb.String()
}

// WithDefs adds the shared definitions when the schema text uses a reference.
func WithDefs(s string) string {
	if !strings.Contains(s, `"$ref"`) || strings.Contains(s, `"definitions"`) {
		return s
	}
	if s == "{}" {
		return `{"definitions":` + Definitions + `}`
	}
	return `{"definitions":` + Definitions + `,` + s[1:]
}

// Schemas enumerates all conjunctions of exactly k atoms (k = 1..3) in lexicographic index order and
// calls f with the ordinal and the schema text. Enumeration is deterministic; shard selects ordinals
// with ordinal % shards == shard.
func Schemas(k int, shard, shards int, f func(ord int, schema string) bool) {
	atoms := Atoms()
	n := len(atoms)
	ord := 0
	emit := func(s string) bool {
		if s == "" {
			return true
		}
		mine := ord%shards == shard
		ord++
		if !mine {
			return true
		}
		return f(ord-1, s)
	}
	switch k {
	case 1:
		for i := 0; i < n; i++ {
			if !emit(Merge(atoms[i])) {
				return
			}
		}
	case 2:
		for i := 1; i < n; i++ { // atom 0 is {} (neutral)
			for j := i + 1; j < n; j++ {
				if !emit(Merge(atoms[i], atoms[j])) {
					return
				}
			}
		}
	case 3:
		for i := 1; i < n; i++ {
			for j := i + 1; j < n; j++ {
				if Merge(atoms[i], atoms[j]) == "" {
					continue
				}
				for l := j + 1; l < n; l++ {
					if !emit(Merge(atoms[i], atoms[j], atoms[l])) {
						return
					}
				}
			}
		}
	}
}
