package checks

import (
	"encoding/json"
	"fmt"
	"math"
	"math/big"
	"os"
	"sort"
	"strconv"
	"strings"

	"github.com/go-openapi/errors"
	"github.com/go-openapi/spec"
	"github.com/go-openapi/strfmt"
	"github.com/go-openapi/validate"
	"github.com/go-openapi/validate/verifrt"

	"verif/harness/hx"
	"verif/harness/ref/num"
)

// C13 — numeric verdicts depend on the number, not on the Go type that carries it.
//
// Bounded-exhaustive enumeration (nested loops, nothing random):
//
//	value grid x constraint grid x {maximum, exclusive maximum, minimum, exclusive minimum, multipleOf}
//	  x every Go carrier in which the value is exactly representable
//	  x entry points {typed helpers, *NativeType, AgainstSchema, ParamValidator, HeaderValidator}
//
// Oracle 1: the library rejects  <=>  ref/num (big.Rat on the decimal literals) says "violated".
// Oracle 2: one (value, constraint, keyword) gets one verdict whatever the carrier and the entry point
// (implied by oracle 1 because the reference verdict is a function of the tuple alone; the number of
// tuples on which carriers/entry points disagree among themselves is counted separately).
// A panic is a violation.
//
// Domain (the quantifier of the property), everything else is skipped and counted:
//   - a number is a plain decimal literal; it is "representable" in float64 when it is an integer with
//     |x| <= 2^53 or a fraction with at most 15 significant digits (then the nearest float64 prints back
//     as the same literal), in float32 when the float32 and the float64 are the same real number, in an
//     integer kind when it is an integer inside the kind's range; json.Number carries any literal;
//   - constraints: |c| <= 2^53 and representable in float64 (the library keeps every constraint in a
//     float64), and representable in the declared type/format (an integer-typed schema with a fractional
//     bound, or an int32 parameter with a bound beyond int32, is reported by the library on purpose as an
//     ill-typed bound: DESIGN section 8 #15, outside the claim);
//   - values: inside the range of the declared type/format;
//   - multipleOf: factor > 0 with at most 6 fractional digits, value with at most 6 fractional digits and
//     at most 15 significant digits;
//   - json.Number only through AgainstSchema (for the other entry points it is a Go string).

func init() { Registry["C13"] = c13 }

// ---------------------------------------------------------------------------------------------
// numbers

type c13num struct {
	Dec   string
	R     *big.Rat
	IsInt bool
	Sig   int
	Frac  int
	F64   float64
	F64ok bool
	F32   float32
	F32ok bool
	I64   int64
	I64ok bool
	U64   uint64
	U64ok bool
	Extra bool // only in the thorough grid
}

var c13two53 = new(big.Rat).SetInt(new(big.Int).Lsh(big.NewInt(1), 53))

func c13parse(dec string) *c13num {
	r, ok := num.FromDecimal(dec)
	if !ok || strings.ContainsAny(dec, "eE") {
		panic("c13: bad literal " + dec)
	}
	n := &c13num{Dec: dec, R: r, IsInt: r.IsInt(), Sig: num.SignificantDigits(dec), Frac: num.FractionalDigits(dec)}
	abs := new(big.Rat).Abs(r)
	f, err := strconv.ParseFloat(dec, 64)
	if err == nil {
		back, ok := num.Of(f)
		if ok && back.Cmp(r) == 0 {
			if n.IsInt {
				n.F64ok = abs.Cmp(c13two53) <= 0
			} else {
				n.F64ok = n.Sig <= 15
			}
		}
		n.F64 = f
	}
	if n.F64ok {
		f32 := float32(f)
		if !math.IsInf(float64(f32), 0) && float64(f32) == f {
			n.F32, n.F32ok = f32, true
		}
	}
	if n.IsInt {
		i := r.Num()
		if i.IsInt64() {
			n.I64, n.I64ok = i.Int64(), true
		}
		if i.IsUint64() {
			n.U64, n.U64ok = i.Uint64(), true
		}
	}
	// the literal must be canonical, otherwise signatures would not be unique
	if n.F64ok && strconv.FormatFloat(f, 'f', -1, 64) != dec {
		panic("c13: literal not canonical: " + dec)
	}
	return n
}

var c13carriers = []string{"int", "int8", "int16", "int32", "int64", "uint", "uint8", "uint16", "uint32", "uint64", "float32", "float64", "json.Number"}

func c13family(carrier string) string {
	switch {
	case strings.HasPrefix(carrier, "int"):
		return "int"
	case strings.HasPrefix(carrier, "uint"):
		return "uint"
	case strings.HasPrefix(carrier, "float"):
		return "float"
	}
	return carrier
}

// carry returns the value as the given Go kind when it is exactly representable in it.
func (n *c13num) carry(kind string) (any, bool) {
	switch kind {
	case "int":
		if n.I64ok {
			return int(n.I64), true
		}
	case "int8":
		if n.I64ok && n.I64 >= math.MinInt8 && n.I64 <= math.MaxInt8 {
			return int8(n.I64), true
		}
	case "int16":
		if n.I64ok && n.I64 >= math.MinInt16 && n.I64 <= math.MaxInt16 {
			return int16(n.I64), true
		}
	case "int32":
		if n.I64ok && n.I64 >= math.MinInt32 && n.I64 <= math.MaxInt32 {
			return int32(n.I64), true
		}
	case "int64":
		if n.I64ok {
			return n.I64, true
		}
	case "uint":
		if n.U64ok {
			return uint(n.U64), true
		}
	case "uint8":
		if n.U64ok && n.U64 <= math.MaxUint8 {
			return uint8(n.U64), true
		}
	case "uint16":
		if n.U64ok && n.U64 <= math.MaxUint16 {
			return uint16(n.U64), true
		}
	case "uint32":
		if n.U64ok && n.U64 <= math.MaxUint32 {
			return uint32(n.U64), true
		}
	case "uint64":
		if n.U64ok {
			return n.U64, true
		}
	case "float32":
		if n.F32ok {
			return n.F32, true
		}
	case "float64":
		if n.F64ok {
			return n.F64, true
		}
	case "json.Number":
		// the library turns it into a float64 (type number) or an int64 (type integer): keep to literals
		// that survive both
		if n.F64ok {
			return json.Number(n.Dec), true
		}
	}
	return nil, false
}

// inFormat says whether the number is exactly representable in a declared (type, format).
func (n *c13num) inFormat(typ, format string) bool {
	if typ == "integer" {
		if !n.IsInt {
			return false
		}
		switch format {
		case "int32":
			return n.I64ok && n.I64 >= math.MinInt32 && n.I64 <= math.MaxInt32
		case "uint32":
			return n.U64ok && n.U64 <= math.MaxUint32
		case "uint64":
			return n.U64ok
		default: // "", int64
			return n.I64ok
		}
	}
	switch format {
	case "float":
		return n.F32ok
	default: // "", double
		return n.F64ok
	}
}

// ---------------------------------------------------------------------------------------------
// grids

var c13quickValues = []string{
	"0", "1", "-1", "2", "-2", "3", "-3", "4", "5", "7", "10", "100",
	"127", "128", "-128", "-129", "255", "256", "32767", "32768", "-32768", "65535", "65536",
	"1000000", "16777216", "16777217", "1000000000",
	"2147483647", "2147483648", "-2147483648", "-2147483649", "4294967295", "4294967296",
	"900719925474099", "999999999999999", "9007199254740991", "-9007199254740991",
	"0.5", "-0.5", "2.5", "-2.5", "3.5", "-3.5", "4.5", "7.5", "0.25", "1.5",
	"0.1", "-0.1", "0.3", "0.7", "1.1", "0.01", "0.07", "0.000001", "0.000003", "5.000001",
	"100.25", "123456.789", "1000000000.5",
}

var c13quickBoundsExtra = []string{
	"6", "9007199254740992", "-9007199254740992", "-1000000", "-0.000001", "0.9", "2.999999", "3.000001",
	"1000000.5", "-1000000000.5", "2147483647.5", "-2147483648.5", "4294967295.5", "-100.25",
}

var c13quickFactors = []string{
	"1", "2", "3", "5", "7", "10", "128", "256", "1000000", "2147483648", "4294967295", "4294967296",
	"9007199254740991", "9007199254740992",
	"0.5", "0.25", "1.5", "2.5", "3.5", "0.1", "0.3", "0.7", "1.1", "0.01", "0.000001", "0.000003",
	"100.25", "1000000000.5",
}

type c13grid struct {
	values, bounds, factors []*c13num
}

func c13dedup(lists ...[]string) []string {
	seen := map[string]bool{}
	var out []string
	for _, l := range lists {
		for _, s := range l {
			if !seen[s] {
				seen[s] = true
				out = append(out, s)
			}
		}
	}
	return out
}

func c13ratDec(r *big.Rat) string {
	if r.IsInt() {
		return r.Num().String()
	}
	s := r.FloatString(12)
	s = strings.TrimRight(s, "0")
	return s
}

// c13thoroughExtras generates the additional points of the thorough tier, deterministically.
func c13thoroughExtras() (values, bounds, factors []string) {
	add := func(dst *[]string, r *big.Rat) {
		*dst = append(*dst, c13ratDec(r))
	}
	// all small integers, halves, quarters and tenths
	for i := int64(-20); i <= 20; i++ {
		add(&values, big.NewRat(i, 1))
	}
	for i := int64(-41); i <= 41; i += 2 {
		add(&values, big.NewRat(i, 2))
	}
	for i := int64(-13); i <= 13; i += 2 {
		add(&values, big.NewRat(i, 4))
	}
	for i := int64(-25); i <= 25; i++ {
		if i%5 != 0 {
			add(&values, big.NewRat(i, 10))
		}
	}
	// around every power of two up to 2^53 (both signs), and the half below it
	for k := uint(3); k <= 53; k++ {
		p := new(big.Int).Lsh(big.NewInt(1), k)
		for _, d := range []int64{-1, 0, 1} {
			x := new(big.Int).Add(p, big.NewInt(d))
			if x.Cmp(c13two53.Num()) < 0 {
				add(&values, new(big.Rat).SetInt(x))
				if k%4 == 3 {
					add(&values, new(big.Rat).SetInt(new(big.Int).Neg(x)))
				}
			}
		}
		if k <= 40 && k%3 == 0 {
			add(&values, new(big.Rat).Sub(new(big.Rat).SetInt(p), big.NewRat(1, 2)))
		}
	}
	// powers of ten, with a half and with a millionth
	for k := 1; k <= 14; k++ {
		p := new(big.Int).Exp(big.NewInt(10), big.NewInt(int64(k)), nil)
		add(&values, new(big.Rat).SetInt(p))
		if k <= 12 {
			add(&values, new(big.Rat).Add(new(big.Rat).SetInt(p), big.NewRat(1, 2)))
		}
		if k <= 8 {
			add(&values, new(big.Rat).Add(new(big.Rat).SetInt(p), big.NewRat(1, 1000000)))
		}
	}
	// multiples of small decimal steps
	for _, s := range []int64{100, 1000, 1000000} {
		for _, m := range []int64{1, 2, 3, 7, 9, 11, 33, 99, 101, 999} {
			add(&values, big.NewRat(m, s))
		}
	}
	bounds = append(bounds, values...)
	bounds = append(bounds, "9007199254740993") // beyond 2^53: exercises the skip rule
	for _, f := range values {
		r, _ := num.FromDecimal(f)
		if r.Sign() > 0 {
			factors = append(factors, f)
		}
	}
	return
}

func c13buildGrid(quick bool) c13grid {
	vals := c13dedup(c13quickValues)
	bnds := c13dedup(c13quickValues, c13quickBoundsExtra)
	facs := c13dedup(c13quickFactors)
	quickSet := map[string]bool{}
	for _, s := range c13dedup(vals, bnds, facs) {
		quickSet[s] = true
	}
	if !quick {
		ev, eb, ef := c13thoroughExtras()
		vals = c13dedup(vals, ev)
		bnds = c13dedup(bnds, eb)
		facs = c13dedup(facs, ef)
	}
	mk := func(l []string) []*c13num {
		out := make([]*c13num, 0, len(l))
		for _, s := range l {
			n := c13parse(s)
			n.Extra = !quickSet[s]
			out = append(out, n)
		}
		return out
	}
	return c13grid{mk(vals), mk(bnds), mk(facs)}
}

// ---------------------------------------------------------------------------------------------
// keywords, entry points

type c13kw struct {
	Name string // maximum | minimum | multipleOf
	Excl bool
}

func (k c13kw) String() string {
	if k.Excl {
		return k.Name + " exclusive"
	}
	return k.Name
}

var c13kws = []c13kw{{"maximum", false}, {"maximum", true}, {"minimum", false}, {"minimum", true}, {"multipleOf", false}}

func c13refViolated(k c13kw, v, c *c13num) bool {
	switch k.Name {
	case "maximum":
		return num.Max(v.R, c.R, k.Excl)
	case "minimum":
		return num.Min(v.R, c.R, k.Excl)
	default:
		viol, ok := num.MultipleOf(v.R, c.R)
		if !ok {
			panic("c13: multipleOf factor outside the domain")
		}
		return viol
	}
}

// stages in shrink order: the deepest layer first, so that a defect is attributed to the innermost
// function that shows it.
type c13stage struct {
	Entry  string // helper | native | schema | param | header
	Type   string
	Format string
}

var c13stages = []c13stage{
	{"helper", "", ""},
	{"native", "", ""},
	{"schema", "number", ""},
	{"schema", "integer", ""},
	{"param", "number", ""},
	{"param", "integer", ""},
	{"param", "number", "double"},
	{"param", "number", "float"},
	{"param", "integer", "int32"},
	{"param", "integer", "int64"},
	{"param", "integer", "uint32"},
	{"param", "integer", "uint64"},
	{"header", "number", ""},
	{"header", "integer", ""},
	{"header", "number", "double"},
	{"header", "number", "float"},
	{"header", "integer", "int32"},
	{"header", "integer", "int64"},
	{"header", "integer", "uint32"},
	{"header", "integer", "uint64"},
}

type c13outcome struct {
	Rejected bool
	Kind     string // which error: own keyword ("maximum", ...), "mustBePositive", "other"
	Msg      string
	Panic    string
}

func c13classify(k c13kw, errs []error) (kind, msg string) {
	kind = ""
	var msgs []string
	for _, e := range errs {
		if e == nil {
			continue
		}
		msgs = append(msgs, e.Error())
		this := "other"
		if ve, ok := e.(*errors.Validation); ok {
			switch ve.Code() {
			case errors.MaxFailCode:
				this = "maximum"
			case errors.MinFailCode:
				this = "minimum"
			case errors.MultipleOfFailCode:
				this = "multipleOf"
			case errors.MultipleOfMustBePositiveCode:
				this = "mustBePositive"
			}
		}
		if this == k.Name {
			kind = this
		} else if kind == "" || (kind == "other" && this != "other") {
			kind = this
		}
	}
	sort.Strings(msgs)
	return kind, strings.Join(msgs, " | ")
}

func c13validations(k c13kw, c *c13num) spec.CommonValidations {
	f := c.F64
	var cv spec.CommonValidations
	switch k.Name {
	case "maximum":
		cv.Maximum, cv.ExclusiveMaximum = &f, k.Excl
	case "minimum":
		cv.Minimum, cv.ExclusiveMinimum = &f, k.Excl
	default:
		cv.MultipleOf = &f
	}
	return cv
}

func c13schemaJSON(st c13stage, k c13kw, c *c13num, in string) string {
	var sb strings.Builder
	sb.WriteString("{")
	if in != "" {
		sb.WriteString(`"in":"` + in + `",`)
	}
	sb.WriteString(`"type":"` + st.Type + `"`)
	if st.Format != "" {
		sb.WriteString(`,"format":"` + st.Format + `"`)
	}
	sb.WriteString(`,"` + k.Name + `":` + c.Dec)
	if k.Excl {
		if k.Name == "maximum" {
			sb.WriteString(`,"exclusiveMaximum":true`)
		} else {
			sb.WriteString(`,"exclusiveMinimum":true`)
		}
	}
	sb.WriteString("}")
	return sb.String()
}

func c13title(name string) string { return strings.ToUpper(name[:1]) + name[1:] }

// c13callText renders the call canonically; it is the signature of a violation.
func c13callText(st c13stage, k c13kw, carrier string, v, c *c13num) string {
	arg := carrier + " " + v.Dec
	short := map[string]string{"maximum": "max", "minimum": "min", "multipleOf": "multipleOf"}[k.Name]
	excl := ""
	if k.Excl {
		excl = ", exclusive"
	}
	switch st.Entry {
	case "helper":
		suffix := map[string]string{"float64": "", "int64": "Int", "uint64": "Uint"}[carrier]
		return fmt.Sprintf("%s%s(%s, %s %s%s)", c13title(k.Name), suffix, arg, short, c.Dec, excl)
	case "native":
		return fmt.Sprintf("%sNativeType(%s, %s %s%s)", c13title(k.Name), arg, short, c.Dec, excl)
	case "schema":
		return fmt.Sprintf("AgainstSchema(%s, %s)", c13schemaJSON(st, k, c, ""), arg)
	case "param":
		return fmt.Sprintf("ParamValidator(%s, %s)", c13schemaJSON(st, k, c, "query"), arg)
	default:
		return fmt.Sprintf("HeaderValidator(%s, %s)", c13schemaJSON(st, k, c, ""), arg)
	}
}

// c13call performs one library call.
func c13call(st c13stage, k c13kw, carrier string, data any, v, c *c13num) (out c13outcome) {
	defer func() {
		if r := recover(); r != nil {
			out = c13outcome{Rejected: true, Kind: "panic", Panic: panicText(r)}
			resetPools()
		}
	}()
	one := func(e *errors.Validation) c13outcome {
		if e == nil {
			return c13outcome{}
		}
		kind, msg := c13classify(k, []error{e})
		return c13outcome{Rejected: true, Kind: kind, Msg: msg}
	}
	many := func(errs []error) c13outcome {
		if len(errs) == 0 {
			return c13outcome{}
		}
		kind, msg := c13classify(k, errs)
		return c13outcome{Rejected: true, Kind: kind, Msg: msg}
	}
	const path, in = "p", "query"
	switch st.Entry {
	case "helper":
		switch carrier {
		case "float64":
			switch k.Name {
			case "maximum":
				return one(validate.Maximum(path, in, v.F64, c.F64, k.Excl))
			case "minimum":
				return one(validate.Minimum(path, in, v.F64, c.F64, k.Excl))
			default:
				return one(validate.MultipleOf(path, in, v.F64, c.F64))
			}
		case "int64":
			switch k.Name {
			case "maximum":
				return one(validate.MaximumInt(path, in, v.I64, c.I64, k.Excl))
			case "minimum":
				return one(validate.MinimumInt(path, in, v.I64, c.I64, k.Excl))
			default:
				return one(validate.MultipleOfInt(path, in, v.I64, c.I64))
			}
		default:
			switch k.Name {
			case "maximum":
				return one(validate.MaximumUint(path, in, v.U64, c.U64, k.Excl))
			case "minimum":
				return one(validate.MinimumUint(path, in, v.U64, c.U64, k.Excl))
			default:
				return one(validate.MultipleOfUint(path, in, v.U64, c.U64))
			}
		}
	case "native":
		switch k.Name {
		case "maximum":
			return one(validate.MaximumNativeType(path, in, data, c.F64, k.Excl))
		case "minimum":
			return one(validate.MinimumNativeType(path, in, data, c.F64, k.Excl))
		default:
			return one(validate.MultipleOfNativeType(path, in, data, c.F64))
		}
	case "schema":
		sch := &spec.Schema{SchemaProps: spec.SchemaProps{Type: spec.StringOrArray{st.Type}, Format: st.Format}}
		cv := c13validations(k, c)
		sch.Maximum, sch.ExclusiveMaximum, sch.Minimum, sch.ExclusiveMinimum, sch.MultipleOf =
			cv.Maximum, cv.ExclusiveMaximum, cv.Minimum, cv.ExclusiveMinimum, cv.MultipleOf
		e := validate.AgainstSchema(sch, data, strfmt.Default)
		if e == nil {
			return c13outcome{}
		}
		if ce, ok := e.(*errors.CompositeError); ok {
			return many(ce.Errors)
		}
		return many([]error{e})
	case "param":
		p := spec.QueryParam(path)
		p.Type, p.Format = st.Type, st.Format
		p.CommonValidations = c13validations(k, c)
		res := validate.NewParamValidator(p, strfmt.Default).Validate(data)
		if res == nil {
			return c13outcome{Rejected: true, Kind: "panic", Panic: "nil result"}
		}
		return many(res.Errors)
	default:
		h := &spec.Header{}
		h.Type, h.Format = st.Type, st.Format
		h.CommonValidations = c13validations(k, c)
		res := validate.NewHeaderValidator(path, h, strfmt.Default).Validate(data)
		if res == nil {
			return c13outcome{Rejected: true, Kind: "panic", Panic: "nil result"}
		}
		return many(res.Errors)
	}
}

// ---------------------------------------------------------------------------------------------
// grouping of disagreements

type c13member struct {
	Group string
	Order string
	Sig   string
	What  string
	Rep   map[string]any
}

// c13numOrder renders a number so that plain string comparison orders by: grid tier (quick before
// thorough-only), then number of digits, then magnitude, then sign.
func c13numOrder(n *c13num) string {
	extra := 0
	if n.Extra {
		extra = 1
	}
	digits := len(strings.NewReplacer("-", "", ".", "").Replace(n.Dec))
	mag := new(big.Rat).Abs(n.R).FloatString(12)
	neg := 0
	if n.R.Sign() < 0 {
		neg = 1
	}
	return fmt.Sprintf("%d/%02d/%032s/%d", extra, digits, mag, neg)
}

func c13class(c *c13num) string {
	var parts []string
	if c.IsInt {
		parts = append(parts, "integral")
	} else {
		parts = append(parts, "fractional")
	}
	if c.R.Sign() < 0 {
		parts = append(parts, "negative")
	}
	// "large" = beyond int32; only told apart for integral constraints (a fractional constraint is already
	// outside every integer kind whatever its size)
	if c.IsInt && new(big.Rat).Abs(c.R).Cmp(new(big.Rat).SetInt64(1<<31)) >= 0 {
		parts = append(parts, "large")
	}
	return strings.Join(parts, "+")
}

func c13index(list []string, s string) int {
	for i, x := range list {
		if x == s {
			return i
		}
	}
	return len(list)
}

// ---------------------------------------------------------------------------------------------
// the enumeration

type c13run struct {
	rep      *hx.Report
	sets     *hx.SetAdder
	groups   map[string]*c13member
	others   map[string]int // debug: messages of rejections that are not the keyword's own error
	samples  []any
	debug    bool
	accepted int64
	rejected int64
}

func (r *c13run) skip(why string) { r.rep.Inc("skipped_"+why, 1) }

// tuple evaluates every carrier x stage of one (value, constraint, keyword).
// c13dirty leaves behind, on the pooled validators, what validations OUTSIDE the property's domain
// leave: constraints that the declared type/format cannot carry (an int32 parameter with maximum 1.5,
// a bound beyond int32, a fractional multipleOf on an integer). Their own outcome is not judged; the
// in-domain cases that follow must still get exact verdicts.
func c13dirty() {
	defer func() {
		if recover() != nil {
			resetPools()
		}
	}()
	for _, def := range []string{
		`{"name":"d","in":"query","type":"integer","format":"int32","maximum":1.5}`,
		`{"name":"d","in":"query","type":"integer","format":"int32","minimum":-3000000000,"multipleOf":0.5}`,
		`{"name":"d","in":"query","type":"array","items":{"type":"integer","format":"int32","maximum":3000000000}}`,
	} {
		p, err := parseParam(def)
		if err != nil {
			continue
		}
		var v any = int32(1)
		if p.Type == "array" {
			v = []int32{1}
		}
		validate.NewParamValidator(p, strfmt.Default, validate.WithRecycleValidators(true)).Validate(v)
	}
	sch, _ := parseSpecSchema(`{"type":"integer","format":"int32","maximum":1.5,"multipleOf":0.5}`)
	_ = validate.AgainstSchema(sch, int32(1), strfmt.Default)
}

// c13dirtyWith repeats the idea with the numbers of the tuple that follows: the same bound and the same
// value are first met where the declared type or format cannot carry them (or carries them
// differently) — through the exported range helper with every (type, format) pair and through a
// recycling parameter validator. Anything remembered about "this number" under the wrong type shows in
// the in-domain tuple.
func c13dirtyWith(v, c *c13num) {
	defer func() {
		if recover() != nil {
			resetPools()
		}
	}()
	for _, n := range []*c13num{c, v} {
		if !n.F64ok {
			continue
		}
		for _, tf := range [][2]string{{"integer", ""}, {"integer", "int32"}, {"integer", "int64"}, {"number", ""}, {"number", "float"}, {"number", "double"}, {"", ""}} {
			_ = validate.IsValueValidAgainstRange(n.F64, tf[0], tf[1], "Checked", "dirty")
			if n.I64ok {
				_ = validate.IsValueValidAgainstRange(n.I64, tf[0], tf[1], "Checked", "dirty")
			}
		}
	}
	if c.F64ok {
		for _, tf := range [][2]string{{"integer", ""}, {"integer", "int32"}, {"number", "float"}} {
			p := spec.QueryParam("d").Typed(tf[0], tf[1])
			b := c.F64
			p.Maximum, p.Minimum = &b, &b
			if b > 0 {
				p.MultipleOf = &b
			}
			validate.NewParamValidator(p, strfmt.Default, validate.WithRecycleValidators(true)).Validate(int64(1))
		}
	}
}

func (r *c13run) tuple(k c13kw, v, c *c13num) {
	c13dirty()
	c13dirtyWith(v, c)
	// ---- domain of the tuple
	if !c.F64ok {
		r.skip("constraint_beyond_2^53_or_not_a_float64")
		return
	}
	if k.Name == "multipleOf" {
		if c.R.Sign() <= 0 {
			r.skip("multipleOf_factor_not_positive")
			return
		}
		if c.Frac > 6 || v.Frac > 6 {
			r.skip("multipleOf_more_than_6_fractional_digits")
			return
		}
		if v.Sig > 15 {
			r.skip("multipleOf_value_beyond_15_significant_digits")
			return
		}
	}
	want := c13refViolated(k, v, c)
	tupleKey := k.String() + "|" + v.Dec + "|" + c.Dec
	r.rep.Inc("tuples", 1)
	if want {
		r.sets.Add("nontrivial", tupleKey)
	}
	sawAccept, sawReject := false, false
	failed := map[string]bool{} // direction seen failing in an earlier stage
	evals := int64(0)
	for si, st := range c13stages {
		// ---- domain of the stage
		if st.Entry != "helper" && st.Entry != "native" {
			if !c.inFormat(st.Type, st.Format) {
				r.skip("constraint_not_representable_in_declared_type_or_format")
				continue
			}
			if !v.inFormat(st.Type, st.Format) {
				r.skip("value_outside_declared_type_or_format")
				continue
			}
		}
		carriers := c13carriers
		if st.Entry == "helper" {
			carriers = []string{"float64", "int64", "uint64"}
		}
		failedHere := map[string]bool{}
		for _, carrier := range carriers {
			if carrier == "json.Number" && st.Entry != "schema" {
				continue // a Go string for every entry point but AgainstSchema
			}
			data, ok := v.carry(carrier)
			if !ok {
				r.skip("value_not_representable_in_carrier")
				continue
			}
			if st.Entry == "helper" {
				// the constraint travels in the helper's own parameter type
				if (carrier == "int64" && !c.I64ok) || (carrier == "uint64" && !c.U64ok) {
					r.skip("constraint_not_representable_in_helper_parameter")
					continue
				}
			}
			out := c13call(st, k, carrier, data, v, c)
			evals++
			if out.Rejected {
				sawReject = true
				r.rejected++
			} else {
				sawAccept = true
				r.accepted++
			}
			if r.debug && out.Rejected && out.Kind != k.Name {
				r.others[st.Entry+" "+st.Type+"/"+st.Format+" "+k.Name+" "+out.Kind+": "+c13generalise(out.Msg)]++
			}
			if out.Panic == "" && out.Rejected == want {
				continue
			}
			// ---- disagreement
			r.rep.Inc("disagreeing_evaluations", 1)
			dir := "accepts a violating value"
			if out.Panic != "" {
				dir = "panics"
			} else if out.Rejected {
				dir = "rejects a conforming value"
			}
			fam := c13family(carrier)
			// the same tuple already fails the same way in a deeper layer (whatever the carrier there):
			// the outer entry points delegate to the inner ones, so this is the same defect seen again
			// (per carrier family: an integer carrier failing where only the float helpers fail is
			// NOT explained by them — the integer paths use native arithmetic)
			famKey := fam
			if carrier == "json.Number" {
				famKey = "float"
				if st.Type == "integer" {
					famKey = "int"
				}
			}
			if failed[dir+"|"+famKey] {
				r.rep.Inc("disagreements_explained_by_a_deeper_layer", 1)
				continue
			}
			failedHere[dir+"|"+famKey] = true
			group := strings.Join([]string{st.Entry, st.Type, st.Format, k.String(), fam, c13class(c), dir}, " / ")
			order := strings.Join([]string{c13numOrder(v), c13numOrder(c),
				fmt.Sprintf("%02d/%02d", c13index(c13carriers, carrier), si)}, " ")
			sig := c13callText(st, k, carrier, v, c)
			expect := "the value conforms"
			if want {
				expect = "the value violates the constraint"
			}
			got := "accepted"
			if out.Panic != "" {
				got = "panic: " + out.Panic
			} else if out.Rejected {
				got = "rejected: " + out.Msg
			}
			m := &c13member{Group: group, Order: order, Sig: sig,
				What: fmt.Sprintf("%s: exact arithmetic says %s, the library answered %s", sig, expect, got),
				Rep: map[string]any{"entry": st.Entry, "type": st.Type, "format": st.Format, "keyword": k.Name, "exclusive": k.Excl,
					"value": v.Dec, "constraint": c.Dec, "carrier": carrier, "reference_violated": want,
					"library_rejected": out.Rejected, "library_message": out.Msg, "panic": out.Panic,
					"group": group, "order": order}}
			if old := r.groups[group]; old == nil || m.Order < old.Order {
				r.groups[group] = m
			}
		}
		for key := range failedHere {
			failed[key] = true
		}
	}
	r.rep.Inc("evaluations", evals)
	if sawAccept && sawReject {
		r.rep.Inc("tuples_on_which_carriers_or_entry_points_disagree", 1)
	}
	if len(r.samples) < 5 && want && (r.rep.Counters["tuples"]%977 == 1) {
		r.samples = append(r.samples, map[string]any{"keyword": k.String(), "value": v.Dec, "constraint": c.Dec,
			"reference": "violated", "library_calls_compared": evals})
	}
}

var c13digits = strings.NewReplacer("0", "#", "1", "#", "2", "#", "3", "#", "4", "#", "5", "#", "6", "#", "7", "#", "8", "#", "9", "#")

func c13generalise(msg string) string {
	s := c13digits.Replace(msg)
	for strings.Contains(s, "##") {
		s = strings.ReplaceAll(s, "##", "#")
	}
	return s
}

func (r *c13run) enumerate(c *hx.Ctx, g c13grid, shard, shards int) {
	for vi, v := range g.values {
		if vi%shards != shard {
			continue
		}
		if c.Expired() {
			r.rep.Exhaustive = false
			return
		}
		for _, k := range c13kws {
			cons := g.bounds
			if k.Name == "multipleOf" {
				cons = g.factors
			}
			for _, con := range cons {
				r.tuple(k, v, con)
			}
		}
	}
}

func c13worker(c *hx.Ctx, g c13grid, shard, shards int) *hx.Report {
	verifrt.SetMapPolicy(0)
	resetPools()
	r := &c13run{rep: hx.NewReport(), sets: hx.NewSetAdder(), groups: map[string]*c13member{}, others: map[string]int{},
		debug: os.Getenv("C13_DEBUG") != ""}
	r.enumerate(c, g, shard, shards)
	r.sets.Flush(r.rep)
	r.rep.Inc("accepted", r.accepted)
	r.rep.Inc("rejected", r.rejected)
	keys := make([]string, 0, len(r.groups))
	for k := range r.groups {
		keys = append(keys, k)
	}
	sort.Strings(keys)
	for _, k := range keys {
		m := r.groups[k]
		r.rep.AddViolation(hx.Violation{Signature: m.Sig, What: m.What, Replay: m.Rep})
	}
	r.rep.Samples = r.samples
	if r.debug {
		var lines []string
		for m, n := range r.others {
			lines = append(lines, fmt.Sprintf("%7d  %s", n, m))
		}
		sort.Strings(lines)
		for _, l := range lines {
			fmt.Fprintln(os.Stderr, "C13_DEBUG other-rejection", l)
		}
	}
	return r.rep
}

// c13regroup keeps, over the merged worker reports, the smallest member of every group.
func c13regroup(rep *hx.Report) {
	best := map[string]hx.Violation{}
	orderOf := func(v hx.Violation) (string, string) {
		m, _ := v.Replay.(map[string]any)
		g, _ := m["group"].(string)
		o, _ := m["order"].(string)
		return g, o
	}
	for _, v := range rep.Violations {
		g, o := orderOf(v)
		if old, ok := best[g]; ok {
			if _, oo := orderOf(old); oo <= o {
				continue
			}
		}
		best[g] = v
	}
	rep.Violations = rep.Violations[:0]
	for _, v := range best {
		rep.AddViolation(v)
	}
}

func c13(c *hx.Ctx) int {
	g := c13buildGrid(c.Quick())
	if len(c.Args) == 2 && c.Args[0] == "--replay" {
		return c13replay(c.Args[1])
	}
	shards := 1
	if !c.Quick() {
		shards = 16
	}
	if c.Worker >= 0 {
		hx.EmitWorkerReport(c13worker(c, g, c.Worker, c.Workers))
		return 0
	}
	var rep *hx.Report
	if shards == 1 {
		rep = c13worker(c, g, 0, 1)
	} else {
		rep = c.RunWorkers(shards, 16)
		c13regroup(rep)
	}
	if rep.HarnessErr == "" && (rep.Counters["accepted"] == 0 || rep.Counters["rejected"] == 0 || rep.SetSize("nontrivial") == 0) {
		rep.HarnessErr = "vacuous run: the library never accepted or never rejected, or the reference never said violated"
	}
	skipped := map[string]int64{}
	for k, n := range rep.Counters {
		if strings.HasPrefix(k, "skipped_") {
			skipped[strings.TrimPrefix(k, "skipped_")] = n
			delete(rep.Counters, k)
		}
	}
	cov := map[string]any{
		"evaluations":                    rep.Counters["evaluations"],
		"distinct_nontrivial":            rep.SetSize("nontrivial"),
		"tuples":                         rep.Counters["tuples"],
		"grid":                           map[string]int{"values": len(g.values), "bounds": len(g.bounds), "multipleOf_factors": len(g.factors), "carriers": len(c13carriers), "stages": len(c13stages)},
		"skipped":                        skipped,
		"distinct_minimal_disagreements": len(rep.Violations),
		"rule":                           "every value of the grid x every constraint of the grid x {maximum, exclusive maximum, minimum, exclusive minimum, multipleOf} x every Go carrier (10 integer kinds, float32, float64; json.Number for AgainstSchema) in which the value is exactly representable x {Maximum/MaximumInt/MaximumUint-style helpers, *NativeType, AgainstSchema type number|integer, ParamValidator and HeaderValidator with type number|integer and formats none/double/float/int32/int64/uint32/uint64}; an evaluation is one library call compared with exact big.Rat arithmetic on the decimal literals; a tuple (keyword, exclusive, value, constraint) is non-trivial when the reference says violated (counted with a set); combinations outside the property's domain are skipped and counted under 'skipped'; disagreements are grouped by (first entry point that shows them, type/format, keyword, carrier family, constraint class, direction) and the smallest member of each group is reported",
	}
	return hx.Finish(c, "exploration", rep, cov, []string{
		"a number is identified with its decimal literal: float carriers stand for the shortest decimal that round-trips (0.1 means one tenth)",
		"float64 carries integers up to 2^53 in magnitude and fractions of at most 15 significant digits; float32 only numbers that are the same real in float32 and float64; integer kinds only integers in their range",
		"constraints are within +-2^53 and exactly representable in float64 (the library stores them as float64) and in the declared type/format: an integer schema with a fractional bound, or a formatted parameter with a bound outside the format, is skipped (the library reports an ill-typed bound on purpose)",
		"multipleOf: factor > 0, factor and value with at most 6 fractional digits, value with at most 15 significant digits",
		"json.Number is only passed to AgainstSchema; for ParamValidator, HeaderValidator and the exported helpers it is a Go string, which is outside the numeric kinds they accept",
		"oracle 2 (same verdict for every carrier and entry point) follows from oracle 1 because the reference verdict depends on the tuple only",
	})
}

// c13replay re-executes the case of a replay file and prints what the library and the reference say.
func c13replay(file string) int {
	b, err := os.ReadFile(file)
	if err != nil {
		fmt.Fprintln(os.Stderr, "HARNESS-ERROR", err)
		return 2
	}
	var f struct {
		Replay struct {
			Entry, Type, Format, Keyword, Value, Constraint, Carrier string
			Exclusive                                                bool
		} `json:"replay"`
	}
	if err := json.Unmarshal(b, &f); err != nil {
		fmt.Fprintln(os.Stderr, "HARNESS-ERROR", err)
		return 2
	}
	rp := f.Replay
	v, con := c13parse(rp.Value), c13parse(rp.Constraint)
	k := c13kw{rp.Keyword, rp.Exclusive}
	st := c13stage{rp.Entry, rp.Type, rp.Format}
	data, ok := v.carry(rp.Carrier)
	if !ok {
		fmt.Fprintln(os.Stderr, "HARNESS-ERROR value not representable in carrier")
		return 2
	}
	out := c13call(st, k, rp.Carrier, data, v, con)
	want := c13refViolated(k, v, con)
	fmt.Printf("%s\n  reference: violated=%v\n  library:   rejected=%v %s%s\n", c13callText(st, k, rp.Carrier, v, con), want, out.Rejected, out.Msg, out.Panic)
	if out.Panic != "" || out.Rejected != want {
		return 1
	}
	return 0
}
