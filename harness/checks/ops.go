package checks

import (
	"encoding/json"
	"fmt"
	"strconv"
	"strings"

	"github.com/go-openapi/loads"
	"github.com/go-openapi/spec"
	"github.com/go-openapi/strfmt"
	"github.com/go-openapi/validate"

	"verif/harness/hx"
)

// Op is one call into the library, described by data so that histories can be stored, replayed and
// shrunk. Kinds:
//
//	against  AgainstSchema(schema, instance)                       (recycling validators and results)
//	recyc    NewSchemaValidator(..., WithRecycleValidators).Validate (validator used once)
//	plain    NewSchemaValidator(...).Validate                      (no recycling requested)
//	param    NewParamValidator(param, WithRecycleValidators).Validate(value)
//	header   NewHeaderValidator(name, header, WithRecycleValidators).Validate(value)
//	spec     NewSpecValidator(...).Validate(document)              (Def = document JSON, Val = "continue" or "")
type Op struct {
	Kind string `json:"kind"`
	Def  string `json:"def"`            // schema / parameter / header / document JSON
	Val  string `json:"val"`            // instance JSON, or typed Go value descriptor for param/header
	Root string `json:"root,omitempty"` // root path for schema validators
	// Fault > 0: the format registry panics at its Fault-th Validates call (C11)
	Fault int `json:"fault,omitempty"`
	// Reg "custom": the caller supplies another registry (knows only x-even); Opts "swagger": the
	// Swagger strictness options are switched on
	Reg  string `json:"reg,omitempty"`
	Opts string `json:"opts,omitempty"`
}

// faultRegistry is strfmt.Default whose k-th Validates call panics.
type faultRegistry struct {
	strfmt.Registry
	calls *int
	k     int
}

const injectedFault = "injected format checker fault"

func (f faultRegistry) Validates(name, data string) bool {
	*f.calls++
	if *f.calls == f.k {
		panic(injectedFault)
	}
	return f.Registry.Validates(name, data)
}

// LastFormatCalls is the number of Validates calls made by the last op run with a counting registry.
var LastFormatCalls int

func (o Op) options() []validate.Option {
	if o.Opts == "swagger" {
		return []validate.Option{validate.SwaggerSchema(true)}
	}
	return nil
}

func (o Op) registry() strfmt.Registry {
	if o.Reg == "custom" {
		return customRegistry
	}
	if o.Fault == 0 {
		return strfmt.Default
	}
	LastFormatCalls = 0
	return faultRegistry{Registry: strfmt.Default, calls: &LastFormatCalls, k: o.Fault}
}

func (o Op) String() string {
	if o.Fault > 0 {
		return fmt.Sprintf("%s(%s ⊢ %s, format checker panics at call %d)", o.Kind, o.Def, o.Val, o.Fault)
	}
	if o.Reg != "" || o.Opts != "" {
		return fmt.Sprintf("%s(%s ⊢ %s, registry=%s options=%s)", o.Kind, o.Def, o.Val, o.Reg, o.Opts)
	}
	return fmt.Sprintf("%s(%s ⊢ %s)", o.Kind, o.Def, o.Val)
}

// goValue decodes typed Go value descriptors: "nil", "int:5", "int32:5", "uint8:5", "float32:2.5",
// "float64:2.5", "string:abc", "bool:true", "[]string:a|b", "[]int:1|2", "[]int32:1|2", "[]float64:1|2",
// "[][]string:a|b;c", "json:<json>" (decoded with float64), "num:<json>" (decoded with json.Number).
func goValue(d string) any {
	if d == "nil" {
		return nil
	}
	i := strings.Index(d, ":")
	if i < 0 {
		panic("goValue: " + d)
	}
	t, v := d[:i], d[i+1:]
	split := func(s string) []string {
		if s == "" {
			return nil
		}
		return strings.Split(s, "|")
	}
	pi := func(s string, bits int) int64 { n, _ := strconv.ParseInt(s, 10, bits); return n }
	pu := func(s string, bits int) uint64 { n, _ := strconv.ParseUint(s, 10, bits); return n }
	pf := func(s string, bits int) float64 { n, _ := strconv.ParseFloat(s, bits); return n }
	switch t {
	case "json":
		return parseInstance(v)
	case "num":
		return parseInstanceNumber(v)
	case "int":
		return int(pi(v, 64))
	case "int8":
		return int8(pi(v, 8))
	case "int16":
		return int16(pi(v, 16))
	case "int32":
		return int32(pi(v, 32))
	case "int64":
		return pi(v, 64)
	case "uint":
		return uint(pu(v, 64))
	case "uint8":
		return uint8(pu(v, 8))
	case "uint16":
		return uint16(pu(v, 16))
	case "uint32":
		return uint32(pu(v, 32))
	case "uint64":
		return pu(v, 64)
	case "float32":
		return float32(pf(v, 32))
	case "float64":
		return pf(v, 64)
	case "string":
		return v
	case "bool":
		return v == "true"
	case "[]string":
		return append([]string{}, split(v)...)
	case "[]int":
		out := []int{}
		for _, x := range split(v) {
			out = append(out, int(pi(x, 64)))
		}
		return out
	case "[]int32":
		out := []int32{}
		for _, x := range split(v) {
			out = append(out, int32(pi(x, 32)))
		}
		return out
	case "[]int64":
		out := []int64{}
		for _, x := range split(v) {
			out = append(out, pi(x, 64))
		}
		return out
	case "[]float64":
		out := []float64{}
		for _, x := range split(v) {
			out = append(out, pf(x, 64))
		}
		return out
	case "[][]string":
		out := [][]string{}
		if v != "" {
			for _, row := range strings.Split(v, ";") {
				out = append(out, append([]string{}, split(row)...))
			}
		}
		return out
	}
	panic("goValue: unknown type " + t)
}

// nilSchema as Op.Def stands for a nil *spec.Schema.
const nilSchema = "<nil schema>"

func resultOutcome(res *validate.Result) hx.Outcome {
	if res == nil {
		return hx.Outcome{Valid: true, Warnings: []string{"<nil result>"}}
	}
	return hx.Outcome{Valid: res.IsValid(), Errors: hx.SortedMsgs(res.Errors), Warnings: hx.SortedMsgs(res.Warnings)}
}

// Run executes the op once and returns its outcome (panics are recovered into the outcome; pools are
// NOT reset here, the caller decides what a panic means for the rest of the history).
func (o Op) Run() (out hx.Outcome) {
	defer func() {
		if r := recover(); r != nil {
			out = hx.Outcome{Panic: panicText(r)}
		}
	}()
	switch o.Kind {
	case "against":
		if o.Def == nilSchema {
			// the degenerate call: no schema at all (accepts everything, must leave nothing behind)
			return againstNoReset(nil, goValueOrJSON(o.Val), o.registry(), o.options()...)
		}
		sch, err := parseSpecSchema(o.Def)
		if err != nil {
			return hx.Outcome{Panic: "bad schema: " + err.Error()}
		}
		return againstNoReset(sch, goValueOrJSON(o.Val), o.registry(), o.options()...)
	case "recyc", "plain":
		sch, err := parseSpecSchema(o.Def)
		if o.Def == nilSchema {
			sch, err = nil, nil
		}
		if err != nil {
			return hx.Outcome{Panic: "bad schema: " + err.Error()}
		}
		opts := o.options()
		if o.Kind == "recyc" {
			opts = append(opts, validate.WithRecycleValidators(true))
		}
		res := validate.NewSchemaValidator(sch, nil, o.Root, o.registry(), opts...).Validate(goValueOrJSON(o.Val))
		return resultOutcome(res)
	case "param":
		p := new(spec.Parameter)
		if err := json.Unmarshal([]byte(o.Def), p); err != nil {
			return hx.Outcome{Panic: "bad parameter: " + err.Error()}
		}
		res := validate.NewParamValidator(p, o.registry(), validate.WithRecycleValidators(true)).Validate(goValue(o.Val))
		return resultOutcome(res)
	case "header":
		h := new(spec.Header)
		if err := json.Unmarshal([]byte(o.Def), h); err != nil {
			return hx.Outcome{Panic: "bad header: " + err.Error()}
		}
		res := validate.NewHeaderValidator("X-H", h, o.registry(), validate.WithRecycleValidators(true)).Validate(goValue(o.Val))
		return resultOutcome(res)
	case "spec", "specdef":
		doc, err := loads.Analyzed(json.RawMessage(o.Def), "")
		if err != nil {
			return hx.Outcome{Panic: "document does not load: " + err.Error()}
		}
		sv := validate.NewSpecValidator(doc.Schema(), strfmt.Default)
		if o.Kind == "spec" { // "specdef" keeps the package-level default options
			sv.SetContinueOnErrors(o.Val == "continue")
		}
		errs, warns := sv.Validate(doc)
		out := hx.Outcome{Valid: errs.IsValid(), Errors: hx.SortedMsgs(errs.Errors)}
		if warns != nil {
			out.Warnings = hx.SortedMsgs(warns.Errors)
		}
		return out
	}
	return hx.Outcome{Panic: "unknown op kind " + o.Kind}
}

func goValueOrJSON(v string) any {
	if strings.HasPrefix(v, "json:") || strings.HasPrefix(v, "num:") || v == "nil" {
		return goValue(v)
	}
	return parseInstance(v)
}

func againstNoReset(sch *spec.Schema, inst any, reg strfmt.Registry, opts ...validate.Option) hx.Outcome {
	e := validate.AgainstSchema(sch, inst, reg, opts...)
	if e == nil {
		return hx.Outcome{Valid: true}
	}
	return hx.Outcome{Valid: false, Errors: compositeMsgs(e)}
}
