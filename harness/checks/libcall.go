package checks

import (
	"encoding/json"
	"fmt"
	"strings"

	"github.com/go-openapi/errors"
	"github.com/go-openapi/spec"
	"github.com/go-openapi/strfmt"
	"github.com/go-openapi/validate"
	"github.com/go-openapi/validate/verifrt"

	"verif/harness/hx"
)

// parseSpecSchema decodes a schema text into the library's schema type.
func parseSpecSchema(text string) (*spec.Schema, error) {
	s := new(spec.Schema)
	if err := json.Unmarshal([]byte(text), s); err != nil {
		return nil, err
	}
	return s, nil
}

// parseInstance decodes an instance text the way encoding/json does by default (float64 numbers).
func parseInstance(text string) any {
	var v any
	if err := json.Unmarshal([]byte(text), &v); err != nil {
		panic("parseInstance: " + err.Error() + ": " + text)
	}
	return v
}

// parseInstanceNumber decodes with UseNumber.
func parseInstanceNumber(text string) any {
	d := json.NewDecoder(strings.NewReader(text))
	d.UseNumber()
	var v any
	if err := d.Decode(&v); err != nil {
		panic("parseInstanceNumber: " + err.Error())
	}
	return v
}

// resetPools gives the library and the shim fresh, empty pools.
// sentinelDamage remembers the last modification of the library's shared "valid" result that a reset
// had to undo (checks that care report it; every reset restores the object so that executions stay
// independent of each other).
var sentinelDamage string

func resetPools() {
	if d := validate.VerifSentinelState(); d != "" {
		sentinelDamage = d
		validate.VerifRestoreSentinel()
	}
	validate.VerifResetPools()
	verifrt.DropAllPools()
}

func panicText(r any) string {
	s := fmt.Sprint(r)
	if i := strings.Index(s, "\n"); i >= 0 {
		s = s[:i]
	}
	if len(s) > 300 {
		s = s[:300]
	}
	return s
}

// againstSchema runs the one-shot entry point and returns the outcome.
func againstSchema(schemaText string, inst any, formats strfmt.Registry, opts ...validate.Option) (out hx.Outcome) {
	sch, err := parseSpecSchema(schemaText)
	if err != nil {
		return hx.Outcome{Panic: "schema does not decode: " + err.Error()}
	}
	return againstSpec(sch, inst, formats, opts...)
}

func againstSpec(sch *spec.Schema, inst any, formats strfmt.Registry, opts ...validate.Option) (out hx.Outcome) {
	if sch == nil {
		return hx.Outcome{Panic: "schema does not decode"}
	}
	defer func() {
		if r := recover(); r != nil {
			out = hx.Outcome{Panic: panicText(r)}
			// a panic inside a recycling validation may leave the pools corrupted (that is C11's
			// subject); start the following cases from clean pools so that they are judged alone
			resetPools()
		}
	}()
	e := validate.AgainstSchema(sch, inst, formats, opts...)
	if e == nil {
		return hx.Outcome{Valid: true}
	}
	if ce, ok := e.(*errors.CompositeError); ok {
		return hx.Outcome{Valid: false, Errors: hx.SortedMsgs(ce.Errors)}
	}
	return hx.Outcome{Valid: false, Errors: []string{e.Error()}}
}

// validatorObject builds a (non-recycling) validator and validates once.
func validatorObject(schemaText string, inst any, root string, formats strfmt.Registry, opts ...validate.Option) (out hx.Outcome, res *validate.Result) {
	sch, err := parseSpecSchema(schemaText)
	if err != nil {
		return hx.Outcome{Panic: "schema does not decode: " + err.Error()}, nil
	}
	return validatorSpec(sch, inst, root, formats, opts...)
}

func validatorSpec(sch *spec.Schema, inst any, root string, formats strfmt.Registry, opts ...validate.Option) (out hx.Outcome, res *validate.Result) {
	if sch == nil {
		return hx.Outcome{Panic: "schema does not decode"}, nil
	}
	defer func() {
		if r := recover(); r != nil {
			out = hx.Outcome{Panic: panicText(r)}
			res = nil
			resetPools()
		}
	}()
	res = validate.NewSchemaValidator(sch, nil, root, formats, opts...).Validate(inst)
	if res == nil {
		return hx.Outcome{Panic: "nil result"}, nil
	}
	return hx.Outcome{Valid: res.IsValid(), Errors: hx.SortedMsgs(res.Errors), Warnings: hx.SortedMsgs(res.Warnings)}, res
}

// compositeMsgs flattens the error returned by the one-shot entry point into sorted messages.
func compositeMsgs(e error) []string {
	if e == nil {
		return nil
	}
	if ce, ok := e.(*errors.CompositeError); ok {
		return hx.SortedMsgs(ce.Errors)
	}
	return []string{e.Error()}
}

func parseParam(text string) (*spec.Parameter, error) {
	p := new(spec.Parameter)
	err := json.Unmarshal([]byte(text), p)
	return p, err
}
