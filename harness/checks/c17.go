package checks

import (
	"fmt"
	"sort"
	"strconv"
	"strings"

	"github.com/go-openapi/errors"
	"github.com/go-openapi/strfmt"
	"github.com/go-openapi/validate"

	"verif/harness/gen"
	"verif/harness/hx"
	"verif/harness/ref/draft4"
	"verif/harness/shrink"
)

// C17 — every rejection is explained by well-formed, correctly located errors.

func init() { Registry["C17"] = c17 }

// nameWalk is one way of reading an error name as a path into the instance.
type nameWalk struct {
	segs        []string
	exists      bool
	lastMissing bool // everything but the last segment exists and the last one is a missing object member
}

// walkName resolves an error name against the instance. rest is the name with the root stripped.
// Member names may contain dots, so a name can be read in several ways: all readings are returned.
func walkName(inst any, rest string) []nameWalk {
	rest = strings.TrimPrefix(rest, ".")
	var out []nameWalk
	var rec func(cur any, rest string, segs []string)
	rec = func(cur any, rest string, segs []string) {
		if rest == "" {
			out = append(out, nameWalk{segs: append([]string(nil), segs...), exists: true})
			return
		}
		switch c := cur.(type) {
		case map[string]any:
			matched := false
			for k := range c {
				if rest == k || strings.HasPrefix(rest, k+".") {
					matched = true
					rec(c[k], strings.TrimPrefix(strings.TrimPrefix(rest, k), "."), append(segs, k))
				}
			}
			if !matched || true {
				// the rest may name a member that is absent from this object
				out = append(out, nameWalk{segs: append(append([]string(nil), segs...), rest), lastMissing: true})
			}
		case []any:
			seg := rest
			if i := strings.Index(rest, "."); i >= 0 {
				seg = rest[:i]
			}
			n, err := strconv.Atoi(seg)
			if err != nil || n < 0 || n >= len(c) {
				out = append(out, nameWalk{segs: append(append([]string(nil), segs...), seg)})
				return
			}
			rec(c[n], strings.TrimPrefix(strings.TrimPrefix(rest, seg), "."), append(segs, seg))
		default:
			out = append(out, nameWalk{segs: append(append([]string(nil), segs...), rest)})
		}
	}
	rec(inst, rest, nil)
	return out
}

// c17check returns "" or a description of what is ill-formed. restricted enables the location
// accuracy oracle.
func c17check(schemaText, instText, root string, restricted bool) string {
	c := getCase(schemaText)
	inst := parseInstance(instText)
	o, res := validatorSpec(c.spec(), inst, root, strfmt.Default)
	if o.Panic != "" || res == nil {
		return "" // panics are C06's subject
	}
	if res.IsValid() != (len(res.Errors) == 0) {
		return "verdict and error list disagree"
	}
	msgs := map[string]bool{}
	for _, e := range res.Errors {
		if e == nil {
			return "nil error in the result"
		}
		if msgs[e.Error()] {
			return fmt.Sprintf("duplicate message %q in the result", e.Error())
		}
		msgs[e.Error()] = true
	}
	if root == "" {
		sch := c.spec()
		var pan any
		var err error
		func() {
			defer func() {
				if pan = recover(); pan != nil {
					resetPools()
				}
			}()
			err = validate.AgainstSchema(sch, parseInstance(instText), strfmt.Default)
		}()
		if pan == nil {
			if (err == nil) != res.IsValid() {
				return fmt.Sprintf("one-shot entry point returns error=%v but the result is valid=%v", err != nil, res.IsValid())
			}
			if err != nil {
				ce, ok := err.(*errors.CompositeError)
				if !ok {
					return fmt.Sprintf("one-shot entry point returns %T, not a composite error", err)
				}
				if ce.Code() != 422 {
					return fmt.Sprintf("composite error code %d, want 422", ce.Code())
				}
				seen := map[string]bool{}
				for _, e := range ce.Errors {
					if seen[e.Error()] {
						return fmt.Sprintf("composite error lists %q twice", e.Error())
					}
					seen[e.Error()] = true
				}
				if len(seen) != len(msgs) {
					return fmt.Sprintf("composite error lists %d messages, the result %d", len(seen), len(msgs))
				}
				for m := range msgs {
					if !seen[m] {
						return fmt.Sprintf("message %q of the result is missing from the composite error", m)
					}
				}
			}
		}
	}
	// field-level errors. A schema-valued dependency is validated under the path of the *triggering
	// member* (an extra segment) although it applies to the object itself; the property claims
	// designation only for nesting through members and positional items, so for schemas with
	// dependencies only the form of the name is demanded.
	weakNames := strings.Contains(schemaText, `"dependencies"`)
	var refLocs map[string]bool
	if restricted && c.ref != nil {
		var fails []draft4.Fail
		ev := &draft4.Evaluator{Root: c.ref, Formats: strfmt.Default, Fails: &fails}
		func() {
			defer func() { recover() }()
			ev.Valid(c.ref, inst)
		}()
		refLocs = map[string]bool{}
		for _, f := range fails {
			loc := f.Loc
			if f.Kw == "required" {
				if loc == "" {
					loc = "\x00" + f.Missing
				} else {
					loc = loc + "\x00" + f.Missing
				}
			}
			refLocs[loc] = true
		}
	}
	for _, e := range res.Errors {
		ve, ok := e.(*errors.Validation)
		if !ok {
			continue
		}
		name := ve.Name
		var rest string
		switch {
		case root == "":
			rest = name
		case name == root:
			rest = ""
		case strings.HasPrefix(name, root+"."):
			rest = name[len(root):]
		default:
			return fmt.Sprintf("error name %q does not start with the root path %q (%s)", name, root, ve.Error())
		}
		if ve.Code() == errors.UnallowedPropertyCode {
			// a forbidden property is named by its object and carries the key in Value
			if key, isStr := ve.Value.(string); isStr {
				rest = rest + "." + key
			}
		}
		walks := walkName(inst, rest)
		okWalk := false
		for _, w := range walks {
			if w.exists || (w.lastMissing && ve.Code() == errors.RequiredFailCode) {
				okWalk = true
			}
		}
		if !okWalk && !weakNames {
			return fmt.Sprintf("error name %q designates no location of the instance (%s)", name, ve.Error())
		}
		if refLocs != nil {
			found := false
			for _, w := range walks {
				if !(w.exists || (w.lastMissing && ve.Code() == errors.RequiredFailCode)) {
					continue
				}
				loc := ""
				for _, s := range w.segs {
					loc += "\x00" + s
				}
				if refLocs[loc] {
					found = true
				}
			}
			if !found {
				return fmt.Sprintf("error named %q (%s) but draft-4 evaluation finds nothing failing at that location", name, ve.Error())
			}
		}
	}
	return ""
}

// restricted sub-space: nesting through properties / patternProperties / additionalProperties /
// tuple items only.
func c17nested(depth int) []string {
	leaves := []string{`{"type":"integer"}`, `{"type":"string","minLength":2}`, `{"maximum":2}`, `{"enum":[1]}`, `{"type":"object","required":["a"]}`, `{"not":{}}`}
	cur := leaves
	all := append([]string(nil), leaves...)
	for d := 0; d < depth; d++ {
		var next []string
		for i, s := range cur {
			t := cur[(i+1)%len(cur)]
			next = append(next,
				fmt.Sprintf(`{"properties":{"a":%s,"b":%s},"required":["a","c"]}`, s, t),
				fmt.Sprintf(`{"patternProperties":{"^a":%s},"additionalProperties":false}`, s),
				fmt.Sprintf(`{"properties":{"b":%s},"additionalProperties":%s}`, t, s),
				fmt.Sprintf(`{"items":[%s,%s],"additionalItems":false}`, s, t),
				fmt.Sprintf(`{"properties":{"a.b":%s,"a":{"properties":{"b":%s}}}}`, s, t),
				fmt.Sprintf(`{"items":[{},%s],"additionalItems":%s,"minItems":3}`, s, t),
			)
		}
		all = append(all, next...)
		if len(next) > 40 && d+1 < depth {
			// keep the growth bounded: every 3rd schema goes one level deeper
			var thin []string
			for i := 0; i < len(next); i += 3 {
				thin = append(thin, next[i])
			}
			next = thin
		}
		cur = next
	}
	return all
}

func c17nestedInstances() []string {
	base := []string{`1`, `3`, `"x"`, `"xx"`, `null`, `{}`, `{"a":1}`, `{"a":"x","b":3}`, `{"a":3,"c":1,"d":"xx"}`, `{"ab":3,"b":"x"}`, `{"a.b":"x","a":{"b":"x"}}`,
		`[1,"x"]`, `[3,3,3]`, `["x"]`, `[]`}
	out := append([]string(nil), base...)
	for _, b := range base {
		out = append(out, fmt.Sprintf(`{"a":%s,"b":%s}`, b, base[(len(b)+3)%len(base)]), fmt.Sprintf(`[%s,%s,%s]`, b, b, base[len(b)%len(base)]),
			fmt.Sprintf(`{"a":{"a":%s,"b":1},"c":%s}`, b, b), fmt.Sprintf(`{"ab":[%s,{"a":%s}]}`, b, b))
	}
	return out
}

func c17(c *hx.Ctx) int {
	if c.Worker >= 0 {
		return c17worker(c)
	}
	if c.Quick() {
		c.Budget = 200 * second
	} else {
		c.Budget = 1500 * second
	}
	rep := c.RunWorkers(16, 16)
	cov := map[string]any{
		"evaluations":         rep.Counters["cases"],
		"distinct_nontrivial": rep.Counters["invalid_cases"],
		"located_errors":      rep.Counters["located"],
		"rule":                "part A: all single atoms x 3 root paths and all atom pairs x root \"data\" (thorough: x 3 roots) x 40 instances: verdict/error-list consistency, composite error of the one-shot entry point (code 422, same messages, no duplicates), every field-level error name extends the root by a walk that exists in the instance (or ends in a missing required member); part B: schemas nested only through properties/patternProperties/additionalProperties/tuple items to depth 2 (quick) / 3 (thorough) x nested instances x 3 roots: additionally every named location is one where the reference draft-4 evaluation has a failing keyword; non-trivial = the library rejects the instance; cases distinct by construction",
	}
	return hx.Finish(c, "exploration", rep, cov, []string{
		"field-level error = *errors.Validation; composition/dependency messages are plain API errors without a name",
		"a forbidden property is named by its object and carries the key in Value; with an empty root one leading dot is tolerated (library convention)",
		"location accuracy is soundness only (validators may stop at the first failing group)",
	})
}

func c17worker(c *hx.Ctx) int {
	rep := hx.NewReport()
	roots := []string{"", "data", "a.b"}
	seen := map[string]bool{}
	do := func(schema, inst, root string, restricted bool) {
		rep.Inc("cases", 1)
		d := c17check(schema, inst, root, restricted)
		if d == "" {
			return
		}
		kind := d
		if i := strings.IndexAny(d, "\"("); i > 0 {
			kind = d[:i]
		}
		s0 := shrink.Parse(schema).(map[string]any)
		i0 := shrink.Parse(inst)
		samekind := func(s map[string]any, i any) bool {
			x := c17check(shrink.Text(s), shrink.Text(i), root, restricted)
			return x != "" && strings.HasPrefix(x, kind)
		}
		ms, mi := shrink.Pair2(s0, i0, samekind, func(map[string]any, any) bool { return false }, 1500)
		sig := fmt.Sprintf("%s ⊢ %s root=%q: %s", shrink.Text(ms), shrink.Text(mi), root, strings.TrimSpace(kind))
		if seen[sig] {
			return
		}
		seen[sig] = true
		rep.AddViolation(hx.Violation{Signature: sig,
			What:   fmt.Sprintf("schema %s, instance %s, root path %q: %s", shrink.Text(ms), shrink.Text(mi), root, c17check(shrink.Text(ms), shrink.Text(mi), root, restricted)),
			Replay: map[string]any{"schema": shrink.Text(ms), "instance": shrink.Text(mi), "root": root, "restricted": restricted, "found_as_schema": schema, "found_as_instance": inst}})
	}
	countInvalid := func(schema, inst string) {
		if v, ok := refVerdict(schema, parseInstance(inst)); ok && !v {
			rep.Inc("invalid_cases", 1)
		}
	}
	ord := 0
	mine := func() bool { ord++; return (ord-1)%c.Workers == c.Worker }
	// part A
	gen.Schemas(1, 0, 1, func(_ int, schema string) bool {
		if !mine() {
			return true
		}
		for _, it := range gen.Instances {
			countInvalid(schema, it)
			for _, r := range roots {
				do(schema, it, r, false)
			}
		}
		return true
	})
	gen.Schemas(2, 0, 1, func(_ int, schema string) bool {
		if !mine() {
			return true
		}
		if c.Expired() {
			rep.Exhaustive = false
			return false
		}
		for _, it := range gen.Instances {
			countInvalid(schema, it)
			do(schema, it, "data", false)
			if !c.Quick() {
				do(schema, it, "", false)
				do(schema, it, "a.b", false)
			}
		}
		return true
	})
	// part B
	depth := 2
	if !c.Quick() {
		depth = 3
	}
	insts := c17nestedInstances()
	for _, schema := range c17nested(depth) {
		if !mine() {
			continue
		}
		if c.Expired() {
			rep.Exhaustive = false
			break
		}
		for _, it := range insts {
			countInvalid(schema, it)
			for _, r := range roots {
				do(schema, it, r, true)
				rep.Inc("located", 1)
			}
		}
		if len(rep.Samples) < 2 {
			rep.Samples = append(rep.Samples, map[string]any{"schema": schema, "instance": insts[len(insts)-1], "roots": roots})
		}
	}
	// part C: wide instances. Messages are de-duplicated while results are merged, and the library
	// validates members matched by pattern properties more than once on purpose: with many failing
	// members the list must still name each of them exactly once (150 members, 150 items; more than any
	// fixed look-behind window)
	if c.Worker == 0 {
		wide := func(n int, member func(i int) string) string {
			parts := make([]string, n)
			for i := range parts {
				parts[i] = member(i)
			}
			return strings.Join(parts, ",")
		}
		wideObj := "{" + wide(150, func(i int) string { return fmt.Sprintf(`"p%03d":"s%d"`, i, i) }) + "}"
		wideArr := "[" + wide(150, func(i int) string { return fmt.Sprintf(`"s%d"`, i) }) + "]"
		for _, sc := range [][2]string{
			{`{"patternProperties":{"^p":{"type":"integer"}}}`, wideObj},
			{`{"patternProperties":{"^p":{"type":"integer"}},"additionalProperties":false}`, wideObj},
			{`{"additionalProperties":{"type":"integer"}}`, wideObj},
			{`{"properties":{"p000":{"type":"integer"}},"patternProperties":{"^p":{"type":"integer"},"0$":{"maxLength":1}},"additionalProperties":{"type":"integer"}}`, wideObj},
			{`{"items":{"type":"integer"}}`, wideArr},
			{`{"items":[{"type":"integer"}],"additionalItems":{"type":"integer"}}`, wideArr},
			{`{"properties":{"w":{"patternProperties":{"^p":{"type":"integer"}}}}}`, `{"w":` + wideObj + `}`},
		} {
			// designation is claimed for members and positional items, not for the elements of a list
			// schema (the library names those by the array): there only the form of the list is examined
			located := !strings.HasPrefix(sc[0], `{"items":{`)
			for _, r := range roots {
				countInvalid(sc[0], sc[1])
				do(sc[0], sc[1], r, located)
				rep.Inc("wide_cases", 1)
			}
		}
	}
	hx.EmitWorkerReport(rep)
	return 0
}

var _ = sort.Strings
