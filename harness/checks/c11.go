package checks

import (
	"encoding/json"
	"fmt"
	"github.com/go-openapi/spec"
	"github.com/go-openapi/strfmt"
	"github.com/go-openapi/validate"
	"strings"

	"github.com/go-openapi/validate/verifrt"

	"verif/harness/hx"
)

// C11 — a recovered panic does not corrupt later validations.
//
// Fault enumeration: for every workload, the caller-supplied format checker panics at its k-th
// invocation for EVERY k the workload reaches (K measured in a fault-free dry run); the caller
// recovers; then every follow-up sequence (length <= 2 quick / <= 3 thorough) from a probe alphabet is run
// with every single deviation from the default pool hand-out, and each outcome is compared with the
// outcome of the same call in a fresh process.

func init() { Registry["C11"] = c11 }

const c11date = `2020-01-01`

var c11workloads = []Op{
	{Kind: "against", Def: `{"type":"object","properties":{"a":{"type":"string","format":"date"},"b":{"type":"object","properties":{"c":{"type":"string","format":"email"},"d":{"type":"string","format":"uuid"}}}}}`, Val: `{"a":"2020-01-01","b":{"c":"x@y.zz","d":"nope"}}`},
	{Kind: "against", Def: `{"allOf":[{"type":"string","format":"date"},{"type":"string","format":"email"},{"type":"string","format":"uuid"}]}`, Val: `"x"`},
	{Kind: "against", Def: `{"anyOf":[{"type":"string","format":"date"},{"type":"string","format":"email"},{"type":"string","format":"hostname"}]}`, Val: `"example.org"`},
	{Kind: "against", Def: `{"oneOf":[{"type":"string","format":"date"},{"type":"string","format":"email"},{"type":"string","minLength":50}]}`, Val: `"a@b.cc"`},
	{Kind: "against", Def: `{"type":"array","items":[{"type":"string","format":"date"},{"type":"string","format":"email"}],"additionalItems":{"type":"string","format":"uuid"}}`, Val: `["2020-01-01","a@b.cc","x","y"]`},
	{Kind: "against", Def: `{"type":"array","items":{"type":"string","format":"date"}}`, Val: `["2020-01-01","x","2020-01-02"]`},
	{Kind: "against", Def: `{"patternProperties":{"^a":{"type":"string","format":"date"}},"additionalProperties":{"type":"string","format":"email"}}`, Val: `{"a1":"2020-01-01","a2":"x","b":"a@b.cc"}`},
	{Kind: "against", Def: `{"not":{"type":"string","format":"date"},"dependencies":{"a":{"properties":{"a":{"type":"string","format":"date"}}}}}`, Val: `{"a":"2020-01-01"}`},
	{Kind: "recyc", Def: `{"type":"object","required":["z"],"properties":{"a":{"allOf":[{"type":"string","format":"date"},{"type":"string","format":"date"}]}}}`, Val: `{"a":"2020-01-01"}`, Root: "data"},
	{Kind: "param", Def: `{"name":"p","in":"query","type":"array","items":{"type":"string","format":"date"}}`, Val: `[]string:2020-01-01|x|2020-01-03`},
	{Kind: "param", Def: `{"name":"p","in":"query","type":"string","format":"date"}`, Val: `string:2020-01-01`},
	{Kind: "header", Def: `{"type":"array","items":{"type":"array","items":{"type":"string","format":"date"}}}`, Val: `[][]string:2020-01-01|2020-01-02;x`},
	{Kind: "header", Def: `{"type":"string","format":"email"}`, Val: `string:a@b.cc`},
	// the documented invalid-schema panic, raised while a nested validator is being built
	{Kind: "against", Def: `{"type":"object","properties":{"a":{"type":"integer"},"b":{"$ref":"#/definitions/nowhere"}}}`, Val: `{"a":1,"b":2}`},
	{Kind: "against", Def: `{"allOf":[{"type":"object"},{"properties":{"b":{"items":{"$ref":"#/definitions/nowhere"}}}}]}`, Val: `{"b":[1]}`},
}

// c11wrappers place a sub-schema S under every construct that owns child validators, together with
// an instance transformer such that S is really reached (and reached after another child where the
// construct has several).
var c11wrappers = []struct {
	name   string
	schema string // %s = S
	inst   string // %s = I
}{
	{"allOf", `{"allOf":[{"minLength":1},%s]}`, `%s`},
	{"anyOf", `{"anyOf":[{"not":{}},%s,{}]}`, `%s`},
	{"oneOf", `{"oneOf":[{"not":{}},%s]}`, `%s`},
	{"not", `{"not":%s}`, `%s`},
	{"items", `{"items":%s}`, `[%s,%s]`},
	{"tuple", `{"items":[{},%s]}`, `[1,%s]`},
	{"additionalItems", `{"items":[{}],"additionalItems":%s}`, `[1,%s]`},
	{"properties", `{"properties":{"d":{"default":1},"o":{"type":"integer"},"p":%s,"z":{"default":"dz"}}}`, `{"o":1,"p":%s}`},
	{"patternProperties", `{"patternProperties":{"^p":%s}}`, `{"p1":%s}`},
	{"additionalProperties", `{"properties":{"o":{}},"additionalProperties":%s}`, `{"o":1,"q":%s}`},
	{"dependencies", `{"dependencies":{"p":{"properties":{"p":%s}}}}`, `{"p":%s}`},
}

// c11generated: the format leaf under every wrapper and under every pair of wrappers.
func c11generated() []Op {
	leafS, leafI := `{"type":"string","format":"date"}`, `"2020-01-01"`
	var out []Op
	wrap := func(w int, s, i string) (string, string) {
		ws := strings.Replace(c11wrappers[w].schema, "%s", s, -1)
		wi := strings.Replace(c11wrappers[w].inst, "%s", i, -1)
		return ws, wi
	}
	for a := range c11wrappers {
		s1, i1 := wrap(a, leafS, leafI)
		out = append(out, Op{Kind: "against", Def: s1, Val: i1})
		for b := range c11wrappers {
			s2, i2 := wrap(b, s1, i1)
			out = append(out, Op{Kind: "against", Def: s2, Val: i2})
		}
	}
	return out
}

func c11probes() []Op {
	ops := c04sigma(false)
	ops = append(ops,
		// probes sensitive to names, patterns and paths the workloads use (whatever scratch state an
		// aborted validation leaves behind would show as a lost or foreign message here)
		Op{Kind: "against", Def: `{"required":["d","o","p","z"]}`, Val: `{}`},
		Op{Kind: "against", Def: `{"properties":{"x":{"required":["d","z","p1","q"],"properties":{"y":{"required":["d","o"]}}}}}`, Val: `{"x":{"y":{}}}`},
		Op{Kind: "against", Def: `{"allOf":[{"type":"string","format":"date"},{"type":"string","format":"email"}]}`, Val: `"2020-01-01"`},
		Op{Kind: "against", Def: `{"type":"array","items":{"type":"string","format":"date"}}`, Val: `["2020-01-01","x"]`},
		Op{Kind: "against", Def: `{"type":"object","properties":{"a":{"type":"string","format":"date"},"b":{"type":"object","properties":{"c":{"type":"string","format":"email"}}}}}`, Val: `{"a":"x","b":{"c":"y"}}`},
	)
	return ops
}

func c11allWorkloads() []Op { return append(append([]Op(nil), c11workloads...), c11generated()...) }

func c11(c *hx.Ctx) int {
	if c.Worker >= 0 {
		return c11worker(c)
	}
	if c.Quick() {
		c.Budget = 150 * second
	} else {
		c.Budget = 1200 * second
	}
	hx.CrashHandler = func(c *hx.Ctx, wc hx.WorkerCrash) *hx.Report {
		r := hx.NewReport()
		first := wc.Output
		if i := strings.Index(first, "\n"); i > 0 {
			first = first[:i]
		}
		r.AddViolation(hx.Violation{
			Signature: "process died after a recovered panic: " + wc.LastCase,
			What:      "after " + wc.LastCase + " the process died: " + first,
			Replay:    map[string]any{"case": wc.LastCase, "stderr_head": wc.Output, "exit": wc.Exit},
		})
		return r
	}
	rep := c.RunWorkers(len(c11allWorkloads()), 16)
	cov := map[string]any{
		"evaluations":         rep.Counters["executions"],
		"distinct_nontrivial": rep.SetSize("faultcases"),
		"fault_positions":     rep.Counters["fault_positions"],
		"workloads":           len(c11allWorkloads()),
		"follow_up_histories": rep.Counters["histories"],
		"distinct_outcomes":   rep.SetSize("outcomes"),
		"rule":                "for each workload and EVERY fault position k reached by it (measured), recover the panic, then run each follow-up sequence from the probe alphabet with every single pool hand-out deviation; a case (workload, k, follow-up) is non-trivial when the fault really aborted the workload with a panic; distinct by construction",
	}
	return hx.Finish(c, "fault_enumeration", rep, cov, []string{
		"faults are panics raised by the caller-supplied format checker (or the documented invalid-schema panic); the caller recovers",
		"follow-up outcome must equal the outcome of the same call alone on fresh pools",
	})
}

func c11worker(c *hx.Ctx) int {
	rep := hx.NewReport()
	sets := hx.NewSetAdder()
	all := c11allWorkloads()
	w := all[c.Worker]
	generated := c.Worker >= len(c11workloads)
	probes := c11probes()
	// measure K: fault-free dry run with a counting registry
	dry := w
	dry.Fault = 1 << 30
	resetPools()
	dryOut := dry.Run()
	K := LastFormatCalls
	if dryOut.Panic != "" {
		K = 1 // the workload panics by itself (invalid schema): one fault position
	}
	rep.Inc("fault_positions", int64(K))
	if len(rep.Samples) == 0 {
		rep.Samples = append(rep.Samples, map[string]any{"workload": w, "fault_positions": K, "follow_ups": len(probes)})
	}
	depth := 2
	if !c.Quick() {
		depth = 3
	}
	if generated {
		depth-- // the 132 generated workloads get shorter follow-up sequences
	}
	if dryOut.Panic == "" {
		c11sameObject(w, K, rep, sets)
	}
	for k := 1; k <= K; k++ {
		fw := w
		if dryOut.Panic == "" {
			fw.Fault = k
		}
		var seqs [][]Op
		for _, p := range probes {
			seqs = append(seqs, []Op{p})
			if depth > 1 {
				for _, q := range probes {
					seqs = append(seqs, []Op{p, q})
					if depth > 2 {
						for _, r := range probes {
							seqs = append(seqs, []Op{p, q, r})
						}
					}
				}
			}
		}
		for _, seq := range seqs {
			if c.Expired() {
				rep.Exhaustive = false
				break
			}
			var names []string
			for _, o := range seq {
				names = append(names, o.String())
			}
			hx.AnnounceCase(fw.String() + " then " + strings.Join(names, " ; "))
			c11history(fw, seq, rep, sets)
		}
	}
	sets.Flush(rep)
	hx.EmitWorkerReport(rep)
	return 0
}

// c11history: fresh pools; faulted workload (recovered); then the follow-ups, exploring every single
// deviation of the pool hand-outs inside them.
func c11history(fw Op, seq []Op, rep *hx.Report, sets *hx.SetAdder) {
	want := make([]hx.Outcome, len(seq))
	for i, o := range seq {
		want[i] = soloOutcome(o)
	}
	var outs []hx.Outcome
	var faultOut hx.Outcome
	run := func(prefix []int) verifrt.Trace {
		resetPools()
		verifrt.SetPoolPolicy(verifrt.PolicyLIFO)
		faultOut = fw.Run() // recovered inside Run
		d := &verifrt.Driver{Prefix: prefix, MaxPoints: 100000}
		d.Enabled[verifrt.KPool] = true
		verifrt.Install(d)
		outs = outs[:0]
		for _, o := range seq {
			outs = append(outs, o.Run())
		}
		t := d.TraceOf()
		verifrt.Install(nil)
		return t
	}
	failed := false
	_, capped, err := verifrt.Explore(1, 20000, run, func(prefix []int, t verifrt.Trace) bool {
		rep.Inc("executions", 1)
		if faultOut.Panic != "" {
			sets.Add("faultcases", fw.String()+"|"+seq[0].String()+fmt.Sprint(len(seq)))
		}
		for i := range seq {
			sets.Add("outcomes", outs[i].Key())
			if d := outcomeDiff(outs[i], want[i]); d != "" {
				failed = true
				rep.AddViolation(hx.Violation{
					Signature: fmt.Sprintf("%s then %s", fw.String(), seq[i].String()),
					What:      fmt.Sprintf("after the recovered panic of %s, the call %s gives %s", fw.String(), seq[i].String(), d),
					Replay:    map[string]any{"faulted": fw, "follow_ups": seq, "pool_choices": prefix, "diff": d},
				})
				return false
			}
		}
		return true
	})
	if capped {
		rep.Exhaustive = false
	}
	if err != nil && !failed {
		rep.HarnessErr = err.Error()
	}
	rep.Inc("histories", 1)
}

// c11sameObject: the caller keeps ONE long-lived (non-recycling) validator object, a validation with it
// is aborted by the k-th format check panicking, the caller recovers and goes on using the same
// object. Every later call must return what a never-disturbed validator returns (the fault position
// is passed once: the counting registry does not fault again).
func c11sameObject(w Op, K int, rep *hx.Report, sets *hx.SetAdder) {
	build := func(reg strfmt.Registry) func(any) hx.Outcome {
		switch w.Kind {
		case "against", "recyc", "plain":
			sch, err := parseSpecSchema(w.Def)
			if err != nil {
				return nil
			}
			v := validate.NewSchemaValidator(sch, nil, w.Root, reg)
			return func(x any) hx.Outcome { return resultOutcome(v.Validate(x)) }
		case "param":
			p, err := parseParam(w.Def)
			if err != nil {
				return nil
			}
			v := validate.NewParamValidator(p, reg)
			return func(x any) hx.Outcome { return resultOutcome(v.Validate(x)) }
		case "header":
			h := new(spec.Header)
			if json.Unmarshal([]byte(w.Def), h) != nil {
				return nil
			}
			v := validate.NewHeaderValidator("X-H", h, reg)
			return func(x any) hx.Outcome { return resultOutcome(v.Validate(x)) }
		}
		return nil
	}
	value := func() any {
		if w.Kind == "param" || w.Kind == "header" {
			return goValue(w.Val)
		}
		return goValueOrJSON(w.Val)
	}
	resetPools()
	clean := build(strfmt.Default)
	if clean == nil {
		return
	}
	want := clean(value())
	for k := 1; k <= K; k++ {
		resetPools()
		calls := 0
		run := build(faultRegistry{Registry: strfmt.Default, calls: &calls, k: k})
		func() {
			defer func() { recover() }()
			run(value())
		}()
		for again := 1; again <= 3; again++ {
			rep.Inc("same_object_calls", 1)
			got := func() (o hx.Outcome) {
				defer func() {
					if r := recover(); r != nil {
						o = hx.Outcome{Panic: panicText(r)}
					}
				}()
				return run(value())
			}()
			sets.Add("outcomes", got.Key())
			if d := outcomeDiff(got, want); d != "" {
				rep.AddViolation(hx.Violation{
					Signature: fmt.Sprintf("same validator object after a recovered panic: %s(%s)", w.Kind, w.Def),
					What:      fmt.Sprintf("a long-lived validator for %s whose validation of %s was aborted by the format checker panicking at call %d is used again (call %d after the panic): %s", w.Def, w.Val, k, again, d),
					Replay:    map[string]any{"workload": w, "fault_at": k, "call_after_panic": again},
				})
				return
			}
		}
	}
}
