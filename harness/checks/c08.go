package checks

import (
	"encoding/json"
	"fmt"
	"os"
	"strings"

	"github.com/go-openapi/spec"
	"github.com/go-openapi/strfmt"
	"github.com/go-openapi/validate"
	"github.com/go-openapi/validate/verifrt"

	"verif/harness/gen"
	"verif/harness/hx"
)

// C08 — long-lived validators are stateless.
//
// Explicit enumeration of call histories on ONE validator object built without recycling: all
// sequences of length <= 3 (quick) / 4 (thorough) over the validator's instance alphabet, under the 8
// map-iteration policies and both default pool hand-out policies (intermediate objects are pooled
// even when the caller did not ask for recycling). Oracle: the outcome of every call equals the
// outcome of a freshly built validator on that value.

func init() { Registry["C08"] = c08 }

type c08def struct {
	Kind string // schema | param | header
	Def  string
	Flat bool `json:"-"` // no nested schema: shorter sequences and two map policies in the quick tier
}

type longLived interface {
	Validate(any) *validate.Result
}

func (d c08def) build() (v longLived, err error) {
	defer func() {
		if r := recover(); r != nil {
			err = fmt.Errorf("panic: %v", r)
		}
	}()
	switch d.Kind {
	case "schema":
		sch, e := parseSpecSchema(d.Def)
		if e != nil {
			return nil, e
		}
		return validate.NewSchemaValidator(sch, nil, "", strfmt.Default), nil
	case "param":
		p := new(spec.Parameter)
		if e := json.Unmarshal([]byte(d.Def), p); e != nil {
			return nil, e
		}
		return validate.NewParamValidator(p, strfmt.Default), nil
	case "header":
		h := new(spec.Header)
		if e := json.Unmarshal([]byte(d.Def), h); e != nil {
			return nil, e
		}
		return validate.NewHeaderValidator("X-H", h, strfmt.Default), nil
	}
	return nil, fmt.Errorf("unknown kind")
}

func (d c08def) value(v string) any {
	if d.Kind == "schema" {
		return parseInstance(v)
	}
	return goValue(v)
}

func c08call(v longLived, val any) (out hx.Outcome) {
	defer func() {
		if r := recover(); r != nil {
			out = hx.Outcome{Panic: panicText(r)}
		}
	}()
	return resultOutcome(v.Validate(val))
}

func c08defs(quick bool) []c08def {
	var out []c08def
	for _, a := range gen.Atoms() {
		if a == "{}" {
			continue
		}
		// every atom: the ones with nested schemas own sub-validators, the flat ones own the leaf
		// validators (enum, numeric, string, type, format) that a long-lived validator reuses too
		out = append(out, c08def{"schema", gen.WithDefs(a), strings.Count(a, "{") < 2})
	}
	extra := []string{
		`{"type":"object","properties":{"a":{"type":"array","items":{"type":"object","properties":{"n":{"type":"integer","maximum":2}},"required":["n"]}}},"patternProperties":{"^x":{"type":"string"}},"additionalProperties":false}`,
		`{"type":"array","items":[{"type":"integer"},{"type":"string","minLength":2}],"additionalItems":{"type":"object","required":["a"]},"uniqueItems":true}`,
		`{"anyOf":[{"type":"integer","maximum":2},{"type":"string","minLength":2},{"type":"object","properties":{"a":{"type":"integer"}},"required":["a"]}]}`,
		`{"oneOf":[{"type":"integer"},{"maximum":2},{"type":"array","items":{"type":"integer"}}],"not":{"enum":[3]}}`,
		`{"allOf":[{"properties":{"a":{"type":"integer"}}},{"properties":{"b":{"type":"string"}},"required":["b"]}],"dependencies":{"a":{"required":["c"]}}}`,
	}
	for _, e := range extra {
		out = append(out, c08def{"schema", e, false})
	}
	for _, p := range c04params {
		out = append(out, c08def{"param", p, false})
	}
	for _, h := range c04headers {
		out = append(out, c08def{"header", h, false})
	}
	return out
}

func c08(c *hx.Ctx) int {
	if c.Worker >= 0 {
		return c08worker(c)
	}
	if c.Quick() {
		c.Budget = 150 * second
	} else {
		c.Budget = 1200 * second
	}
	rep := c.RunWorkers(16, 16)
	cov := map[string]any{
		"states":                        rep.SetSize("histories_prefixes"),
		"transitions":                   rep.Counters["calls"],
		"traces_validated_against_impl": rep.Counters["sequences"],
		"validators":                    rep.Counters["validators"],
		"distinct_outcomes":             rep.SetSize("outcomes"),
		"map_policies":                  8,
		"rule":                          "state = (validator definition, history of values already validated with that one object); transition = one more Validate call on the same object; all sequences up to the length bound x 8 map-iteration policies x {LIFO,FIFO} pool policies; oracle: outcome == outcome of a freshly built validator",
	}
	if rep.SetSize("outcomes") < 2 && rep.HarnessErr == "" {
		rep.HarnessErr = "vacuous: fewer than 2 distinct outcomes"
	}
	return hx.Finish(c, "model_checking", rep, cov, []string{
		"validators are built without recycling; schemas with $ref are expanded in place at construction (by design of the expander)",
		"message sets are compared, not message order",
	})
}

func c08worker(c *hx.Ctx) int {
	rep := hx.NewReport()
	sets := hx.NewSetAdder()
	defs := c08defs(c.Quick())
	maxLen, maxAlpha := 3, 8
	if !c.Quick() {
		maxLen, maxAlpha = 4, 9
	}
	for di, d := range defs {
		if di%c.Workers != c.Worker {
			continue
		}
		if only := os.Getenv("VERIF_C08_ONLY"); only != "" && !strings.Contains(d.Def, only) {
			continue // debugging aid: one validator
		}
		if c.Expired() {
			rep.Exhaustive = false
			break
		}
		// reference outcomes with a fresh validator per value, policy 0 / LIFO / fresh pools
		verifrt.SetMapPolicy(0)
		verifrt.SetPoolPolicy(verifrt.PolicyLIFO)
		var cand []string
		if d.Kind == "schema" {
			// plus values that print like another one but are of another JSON type
			cand = append(append([]string(nil), gen.Instances...), `"1"`, `"true"`, `"null"`, `"2.5"`, `{"a":"1"}`, `["1"]`, `"[1]"`, `[true]`)
		} else {
			cand = c04paramValues
		}
		fresh := map[string]hx.Outcome{}
		var alpha []string
		seenOut := map[string]int{}
		for _, v := range cand {
			resetPools()
			fv, err := d.build()
			if err != nil {
				continue
			}
			o := c08call(fv, d.value(v))
			if o.Panic != "" {
				resetPools()
				continue // panics are C06's subject
			}
			fresh[v] = o
			// a fresh validator must already give ONE outcome whatever the iteration order of the maps
			// it walks (otherwise which values are "interesting" below would depend on the policy too)
			orderDependent := false
			for pol := 1; pol < 8 && !orderDependent; pol++ {
				resetPools()
				verifrt.SetMapPolicy(pol)
				if fv2, err := d.build(); err == nil {
					if o2 := c08call(fv2, d.value(v)); o2.Panic == "" {
						if diff := outcomeDiff(o2, o); diff != "" {
							orderDependent = true
							rep.AddViolation(hx.Violation{
								Signature: fmt.Sprintf("%s %s value %s: outcome of a fresh validator depends on map iteration order", d.Kind, d.Def, v),
								What:      fmt.Sprintf("a fresh %s validator %s on %s under map-iteration policy %d gives %s", d.Kind, d.Def, v, pol, strings.Replace(diff, "alone", "under policy 0", -1)),
								Replay:    map[string]any{"validator": d, "values": []string{v}, "map_policy": pol},
							})
						}
					} else {
						resetPools()
					}
				}
				verifrt.SetMapPolicy(0)
			}
			if orderDependent {
				alpha = append(alpha, v)
				continue
			}
			if seenOut[o.Key()] < 2 && len(alpha) < maxAlpha {
				seenOut[o.Key()]++
				alpha = append(alpha, v)
				continue
			}
			// always keep the pairs of values that print alike but differ in JSON type
			switch v {
			case `1`, `"1"`, `true`, `"true"`, `{"a":1}`, `{"a":"1"}`:
				alpha = append(alpha, v)
			}
			if strings.HasPrefix(v, "json:[") && strings.Contains(d.Def, "uniqueItems") {
				alpha = append(alpha, v) // mixed lists for the validators that look for duplicates
			}
		}
		if len(alpha) == 0 {
			continue
		}
		if os.Getenv("VERIF_C08_ONLY") != "" {
			fmt.Fprintln(os.Stderr, "C08 debug: validator", d.Def, "values", alpha)
		}
		rep.Inc("validators", 1)
		if len(rep.Samples) < 2 {
			rep.Samples = append(rep.Samples, map[string]any{"validator": d, "values": alpha})
		}
		// all sequences up to maxLen
		maxLen, npol := maxLen, 8
		if d.Flat && c.Quick() {
			maxLen, npol = 2, 2
		}
		var seqs [][]string
		var rec func(p []string)
		rec = func(p []string) {
			if len(p) > 0 {
				seqs = append(seqs, append([]string(nil), p...))
			}
			if len(p) == maxLen {
				return
			}
			for _, v := range alpha {
				rec(append(p, v))
			}
		}
		rec(nil)
		for _, seq := range seqs {
			if len(seq) < 2 && maxLen > 1 {
				continue // prefixes are covered by the longer sequences
			}
			for pol := 0; pol < npol; pol++ {
				for _, pp := range []int{verifrt.PolicyLIFO, verifrt.PolicyFIFO} {
					if pp == verifrt.PolicyFIFO && pol > 1 {
						continue
					}
					resetPools()
					verifrt.SetMapPolicy(pol)
					verifrt.SetPoolPolicy(pp)
					v, err := d.build()
					if err != nil {
						continue
					}
					rep.Inc("sequences", 1)
					for i, val := range seq {
						o := c08call(v, d.value(val))
						rep.Inc("calls", 1)
						sets.Add("outcomes", o.Key())
						if pol == 0 && pp == verifrt.PolicyLIFO {
							sets.Add("histories_prefixes", d.Def+"|"+strings.Join(seq[:i+1], "|"))
						}
						if diff := outcomeDiff(o, fresh[val]); diff != "" {
							min := c08shrink(d, seq[:i+1], pol, pp, fresh)
							rep.AddViolation(hx.Violation{
								Signature: fmt.Sprintf("%s %s values %s", d.Kind, d.Def, strings.Join(min, " , ")),
								What:      fmt.Sprintf("one %s validator %s used for %s: call %d gives %s", d.Kind, d.Def, strings.Join(min, " , "), len(min), strings.Replace(diff, "alone", "fresh validator", -1)),
								Replay:    map[string]any{"validator": d, "values": seq[:i+1], "minimal_values": min, "map_policy": pol, "pool_policy": pp, "diff": diff},
							})
							if o.Panic != "" {
								resetPools()
							}
							break
						}
					}
				}
			}
		}
	}
	verifrt.SetMapPolicy(0)
	verifrt.SetPoolPolicy(verifrt.PolicyLIFO)
	sets.Flush(rep)
	hx.EmitWorkerReport(rep)
	return 0
}

func c08shrink(d c08def, seq []string, pol, pp int, fresh map[string]hx.Outcome) []string {
	fails := func(s []string) bool {
		resetPools()
		verifrt.SetMapPolicy(pol)
		verifrt.SetPoolPolicy(pp)
		v, err := d.build()
		if err != nil {
			return false
		}
		var o hx.Outcome
		for _, val := range s {
			o = c08call(v, d.value(val))
		}
		return outcomeDiff(o, fresh[s[len(s)-1]]) != ""
	}
	cur := append([]string(nil), seq...)
	for changed := true; changed; {
		changed = false
		for i := 0; i < len(cur)-1; i++ {
			cand := append(append([]string(nil), cur[:i]...), cur[i+1:]...)
			if fails(cand) {
				cur, changed = cand, true
				break
			}
		}
	}
	return cur
}
