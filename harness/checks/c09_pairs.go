package checks

import (
	"encoding/json"
	"fmt"
	"sort"
	"strings"

	"verif/harness/hx"
)

// C09 pair layer: state carried from one visited location to the next (the visited-path set, shared
// scratch) cannot show in documents with a single value. On a base document with several operations —
// some without parameters, some responses without headers, shared response codes — every pair of
// sites receives a rejected default (resp. example); adding the second bad value must add at least
// one error (resp. warning) to the outcome of the document that has only the first.

type c09site struct {
	name string
	path []string // path to the schema / simple-schema object that receives the value
	bad  any      // a value its schema rejects
	good any      // a value its schema accepts (nil: none offered)
}

func c09pairBase() map[string]any {
	const doc = `{"swagger":"2.0","info":{"title":"t","version":"1"},"consumes":["application/json"],"produces":["application/json"],
"paths":{
 "/a":{"get":{"operationId":"opA","responses":{"200":{"description":"ok","schema":{"type":"object","properties":{"count":{"type":"integer"}}}}}}},
 "/b":{"get":{"operationId":"opB","responses":{"200":{"description":"ok","schema":{"type":"object","properties":{"count":{"type":"integer"}}}},"default":{"description":"err","schema":{"type":"object","properties":{"code":{"type":"integer"}}}}}}},
 "/c":{"post":{"operationId":"opC","parameters":[{"name":"q","in":"query","type":"integer"},{"name":"body","in":"body","schema":{"type":"object","properties":{"n":{"type":"integer"}}}},
         {"name":"arr","in":"query","type":"array","items":{"type":"integer","maximum":10}},{"name":"arr2","in":"query","type":"array","items":{"type":"array","items":{"type":"integer"}}}],
       "responses":{"200":{"description":"ok","headers":{"X-N":{"type":"integer"},"X-L":{"type":"array","items":{"type":"integer"}}},"schema":{"$ref":"#/definitions/D1"}},"404":{"description":"nf","schema":{"type":"array","items":{"type":"integer"}}}}}},
 "/d":{"get":{"operationId":"opD","responses":{"200":{"description":"ok","schema":{"$ref":"#/definitions/D2"}},"404":{"description":"nf","schema":{"type":"object","properties":{"why":{"type":"integer"}}}}}}}},
"definitions":{"D1":{"type":"object","properties":{"x":{"type":"integer"}}},"D2":{"type":"object","properties":{"y":{"type":"integer"},"z":{"type":"object","properties":{"w":{"type":"integer"}}}}}}}`
	var m map[string]any
	if err := json.Unmarshal([]byte(strings.ReplaceAll(doc, "\n", "")), &m); err != nil {
		panic(err)
	}
	return m
}

func c09pairSites() []c09site {
	return []c09site{
		{"opA.200.count", []string{"paths", "/a", "get", "responses", "200", "schema", "properties", "count"}, "bad", nil},
		{"opB.200.count", []string{"paths", "/b", "get", "responses", "200", "schema", "properties", "count"}, "bad", nil},
		{"opB.default.code", []string{"paths", "/b", "get", "responses", "default", "schema", "properties", "code"}, "bad", nil},
		{"opC.query.q", []string{"paths", "/c", "post", "parameters", "#0"}, "bad", nil},
		{"opC.body.n", []string{"paths", "/c", "post", "parameters", "#1", "schema", "properties", "n"}, "bad", nil},
		{"opC.200.header", []string{"paths", "/c", "post", "responses", "200", "headers", "X-N"}, "bad", nil},
		{"opC.404.items", []string{"paths", "/c", "post", "responses", "404", "schema", "items"}, "bad", nil},
		{"opD.404.why", []string{"paths", "/d", "get", "responses", "404", "schema", "properties", "why"}, "bad", nil},
		{"D1.x", []string{"definitions", "D1", "properties", "x"}, "bad", nil},
		{"D2.y", []string{"definitions", "D2", "properties", "y"}, "bad", nil},
		{"D2.z.w", []string{"definitions", "D2", "properties", "z", "properties", "w"}, "bad", nil},
		// values at two levels of ONE parameter / header / schema
		{"opC.query.arr", []string{"paths", "/c", "post", "parameters", "#2"}, "bad", []any{1.0, 2.0}},
		{"opC.query.arr.items", []string{"paths", "/c", "post", "parameters", "#2", "items"}, 20.0, 3.0},
		{"opC.query.arr2", []string{"paths", "/c", "post", "parameters", "#3"}, "bad", []any{[]any{1.0}}},
		{"opC.query.arr2.items", []string{"paths", "/c", "post", "parameters", "#3", "items"}, "bad", []any{1.0}},
		{"opC.query.arr2.items.items", []string{"paths", "/c", "post", "parameters", "#3", "items", "items"}, "bad", 3.0},
		{"opC.200.headerL", []string{"paths", "/c", "post", "responses", "200", "headers", "X-L"}, "bad", []any{1.0}},
		{"opC.200.headerL.items", []string{"paths", "/c", "post", "responses", "200", "headers", "X-L", "items"}, "bad", 3.0},
		{"D2.z", []string{"definitions", "D2", "properties", "z"}, "bad", map[string]any{"w": 1.0}},
		{"opC.404", []string{"paths", "/c", "post", "responses", "404", "schema"}, "bad", []any{1.0}},
	}
}

func c09setAt(root map[string]any, path []string, key string, val any) bool {
	var cur any = root
	for _, p := range path {
		switch t := cur.(type) {
		case map[string]any:
			cur = t[p]
		case []any:
			i := 0
			fmt.Sscanf(p, "#%d", &i)
			if i >= len(t) {
				return false
			}
			cur = t[i]
		default:
			return false
		}
	}
	m, ok := cur.(map[string]any)
	if !ok {
		return false
	}
	m[key] = val
	return true
}

func c09pairDoc(sites []c09site, kind string) string {
	doc := c09pairBase()
	for _, s := range sites {
		v := s.bad
		if strings.HasSuffix(s.name, " (accepted value)") {
			v = s.good
		}
		if !c09setAt(doc, s.path, kind, v) {
			panic("c09 pair layer: bad site path " + s.name)
		}
	}
	b, _ := json.Marshal(doc)
	return string(b)
}

// c09pairs runs the layer (sharded like everything else) and adds violations to rep.
func c09pairs(c *hx.Ctx, rep *hx.Report, sets *hx.SetAdder) {
	sites := c09pairSites()
	ord := 0
	for _, kind := range []string{"default", "example"} {
		usable := sites
		if kind == "example" {
			// example is only allowed on schemas, not on simple parameters / headers
			usable = nil
			for _, s := range sites {
				if !strings.Contains(s.name, "query") && !strings.Contains(s.name, "header") {
					usable = append(usable, s)
				}
			}
		}
		for i := range usable {
			for j := range usable {
				if i == j {
					continue
				}
				ord++
				if (ord-1)%c.Workers != c.Worker {
					continue
				}
				if c.Expired() {
					rep.Exhaustive = false
					return
				}
				first, second := usable[i], usable[j]
				firsts := []c09site{first}
				if first.good != nil && c09nested(first.path, second.path) {
					// an ACCEPTED value on one level must not hide a rejected one on another level of
					// the same parameter / header / schema
					g := first
					g.name += " (accepted value)"
					firsts = append(firsts, g)
				}
				for _, first := range firsts {
					cont := true
					one := c09run(c09pairDoc([]c09site{first}, kind), cont)
					two := c09run(c09pairDoc([]c09site{first, second}, kind), cont)
					rep.Inc("pair_layer_validations", 2)
					if one.Panic != "" || two.Panic != "" {
						rep.Inc("panics_left_to_C07", 1)
						continue
					}
					sets.Add("pair_docs", first.name+"+"+second.name+kind)
					var grew bool
					if kind == "default" {
						grew = len(c09minus(two.Errors, one.Errors)) > 0
					} else {
						grew = len(c09minus(two.Warnings, one.Warnings)) > 0 && len(c09minus(two.Errors, one.Errors)) == 0
					}
					if !grew {
						names := []string{first.name, second.name}
						sort.Strings(names)
						rep.AddViolation(hx.Violation{
							Signature: fmt.Sprintf("pair layer: a second rejected %s adds nothing: %s after %s", kind, c09siteClass(second.name), c09siteClass(first.name)),
							What:      fmt.Sprintf("a %s that its schema rejects at %s is not reported when %s carries one too (errors %v → %v, warnings %v → %v)", kind, second.name, first.name, one.Errors, two.Errors, one.Warnings, two.Warnings),
							Replay:    map[string]any{"document_with_first": c09pairDoc([]c09site{first}, kind), "document_with_both": c09pairDoc([]c09site{first, second}, kind), "kind": kind},
						})
					}
				}
			}
		}
	}
}

// c09siteClass abstracts a site name to its kind of location (so that one root cause gives few signatures).
func c09siteClass(n string) string {
	switch {
	case strings.HasPrefix(n, "D"):
		return "definition"
	case strings.Contains(n, "query"):
		return "simple parameter"
	case strings.Contains(n, "body"):
		return "body schema"
	case strings.Contains(n, "header"):
		return "response header"
	default:
		return "response schema"
	}
}

// c09nested: is one site an ancestor of the other (same parameter, header or schema)?
func c09nested(a, b []string) bool {
	if len(a) > len(b) {
		a, b = b, a
	}
	for i := range a {
		if a[i] != b[i] {
			return false
		}
	}
	return true
}
