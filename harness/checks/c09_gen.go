package checks

import (
	"encoding/json"
	"sort"
	"strconv"
	"strings"
)

// C09 generator — one small valid Swagger 2.0 document x every location where the Swagger 2.0 schema
// allows a `default`, an `example`, or the per-media-type `examples` of a response.
//
// A case is (family, root, chain, slot, names, leaf, kind, mode):
//
//	family  schema    the value sits in a Schema Object (definition / body parameter / response)
//	        simple    the value sits in a non-body parameter, a response header, or their items
//	        examples  the value is responses.<code>.examples["application/json"], judged by the
//	                  response schema
//	root    where the outermost schema / simple definition hangs in the document
//	chain   the containers crossed from the root down to the leaf (schema: properties, items, tuple0,
//	        tuple1, additionalProperties, allOf0, allOf1, ref; simple: items)
//	slot    the depth at which the value is attached; slot == len(chain) puts a scalar on the leaf,
//	        slot < len(chain) puts a composite value on an ancestor, built so that it reaches the leaf
//	names   the names given to the definition / member / parameter / header involved
//	leaf    the innermost schema with one value it accepts and one it rejects
//	kind    default | example | examples
//	mode    none (baseline: no value) | accept | reject
//
// Nothing here knows how the library walks a document.

type c09names struct{ ID, D, P, Q, H string }

// simplest first: shrinking retargets towards the front
var c09nameSchemes = []c09names{
	{"n", "Obj", "n", "q", "X-N"},
	{"a-inside-a", "a", "a", "a", "a"},
	{"t-inside-Pet", "Pet", "t", "t", "t"},
	{"a.a", "Obj", "a.a", "a.a", "a.a"},
	{"items", "Obj", "items", "items", "X-N"}, // a header NAMED items makes the document invalid for the library (type/items pre-check): C02/C03 matter
	{"default", "Obj", "default", "default", "default"},
	{"definition-a.a", "a.a", "n", "q", "X-N"},
}

// scheme used only by the composite-value cases below: a member NAMED type holding the word "array"
var c09typeScheme = c09names{"type", "Obj", "type", "type", "X-N"}

func c09namesByID(id string) c09names {
	for _, n := range c09nameSchemes {
		if n.ID == id {
			return n
		}
	}
	if id == c09typeScheme.ID {
		return c09typeScheme
	}
	panic("c09: unknown name scheme " + id)
}

type c09leaf struct {
	ID     string
	Schema string // JSON
	Accept string // JSON
	Reject string // JSON
}

var c09schemaLeaves = []c09leaf{
	{"int", `{"type":"integer"}`, `1`, `"x"`},
	{"str", `{"type":"string","maxLength":2}`, `"ab"`, `"abc"`},
	{"obj", `{"type":"object","required":["k"],"properties":{"k":{"type":"integer"}}}`, `{"k":1}`, `{"k":"x"}`},
}

// a leaf whose accepted value is a word the Swagger-only pre-checks look for in schema objects
// ("type": "array"); used with the name scheme "type" only
var c09kwLeaf = c09leaf{"kw", `{"type":"string","enum":["array","object"]}`, `"array"`, `"nope"`}

var c09simpleLeaves = []c09leaf{
	{"int", `{"type":"integer","maximum":5}`, `3`, `7`},
	{"str", `{"type":"string","enum":["a","b"]}`, `"a"`, `"c"`},
}

// leaves whose REJECTED value is the zero value of its kind (0, "", false): a walker that asks
// "is there a value" with a zero test instead of a nil test never looks at them
var c09zeroSchemaLeaves = []c09leaf{
	{"int0", `{"type":"integer","minimum":1}`, `1`, `0`},
	{"str0", `{"type":"string","minLength":1}`, `"a"`, `""`},
	{"bool0", `{"type":"string"}`, `"x"`, `false`},
}

var c09zeroSimpleLeaves = []c09leaf{
	{"int0", `{"type":"integer","minimum":1}`, `1`, `0`},
	{"str0", `{"type":"string","enum":["a","b"]}`, `"a"`, `""`},
}

func c09leafByID(fam, id string) c09leaf {
	l := append(append([]c09leaf{}, c09schemaLeaves...), c09zeroSchemaLeaves...)
	if fam == "simple" {
		l = append(append([]c09leaf{}, c09simpleLeaves...), c09zeroSimpleLeaves...)
	}
	for _, x := range l {
		if x.ID == id {
			return x
		}
	}
	if id == c09kwLeaf.ID {
		return c09kwLeaf
	}
	panic("c09: unknown leaf " + id)
}

// location order (simplest first)
var (
	c09schemaRoots   = []string{"definition", "response", "body", "response-default", "shared-response", "shared-body"}
	c09simpleRoots   = []string{"query", "header", "formData", "path", "pathitem-query", "shared-parameter", "response-header", "default-response-header", "shared-response-header"}
	c09examplesRoots = []string{"response", "response-default", "shared-response"}
	c09containers    = []string{"properties", "items", "additionalProperties", "allOf0", "allOf1", "tuple0", "tuple1", "ref"}
)

func c09rootsOf(fam string) []string {
	switch fam {
	case "schema":
		return c09schemaRoots
	case "simple":
		return c09simpleRoots
	}
	return c09examplesRoots
}

// c09containerClass names a container in signatures and coverage.
func c09containerClass(c string) string {
	switch c {
	case "allOf0":
		return "allOf[0]"
	case "allOf1":
		return "allOf[1]"
	case "tuple0":
		return "items[0]"
	case "tuple1":
		return "items[1]"
	case "ref":
		return "$ref"
	}
	return c
}

type c09Case struct {
	Fam   string   `json:"family"`
	Root  string   `json:"root"`
	Chain []string `json:"chain"`
	Slot  int      `json:"slot"`
	Names string   `json:"names"`
	Leaf  string   `json:"leaf"`
	Kind  string   `json:"kind"`
	Mode  string   `json:"mode"`
	Cont  bool     `json:"continue_on_errors"`
}

func (c c09Case) groupKey() string {
	cont := "c"
	if !c.Cont {
		cont = "s"
	}
	return strings.Join([]string{c.Fam, c.Root, strings.Join(c.Chain, ","), strconv.Itoa(c.Slot), c.Names, c.Leaf, cont}, "|")
}

func (c c09Case) key() string { return c.groupKey() + "|" + c.Kind + "|" + c.Mode }

func c09parseKey(k string) c09Case {
	f := strings.Split(k, "|")
	c := c09Case{Fam: f[0], Root: f[1], Names: f[4], Leaf: f[5], Cont: f[6] == "c"}
	if f[2] != "" {
		c.Chain = strings.Split(f[2], ",")
	}
	c.Slot, _ = strconv.Atoi(f[3])
	if len(f) > 7 {
		c.Kind, c.Mode = f[7], f[8]
	}
	return c
}

// location renders root + containers, e.g. "definition.properties.items[1]".
func (c c09Case) location() string {
	parts := []string{c.Root}
	if c.Fam == "examples" {
		parts[0] += ".examples"
	}
	for _, x := range c.Chain {
		parts = append(parts, c09containerClass(x))
	}
	return strings.Join(parts, ".")
}

func c09json(text string) any {
	var v any
	if err := json.Unmarshal([]byte(text), &v); err != nil {
		panic("c09json: " + err.Error() + ": " + text)
	}
	return v
}

// c09built is a generated document with what the oracle needs to know about it.
type c09built struct {
	Doc      map[string]any
	SlotPath []string // JSON path (object keys / array indexes) of the object carrying the value
	Value    any      // nil for mode none
	ValueKey string   // default | example | examples
	Required bool     // simple parameter that is required (path parameters)
	ParamIn  string   // for simple parameters: the `in` of the parameter, "" for headers
	ParamNm  string
}

func (b *c09built) text() string {
	t, err := json.Marshal(b.Doc)
	if err != nil {
		panic(err)
	}
	return string(t)
}

const c09path = "/r"

// c09valid tells whether a case is inside the generated domain.
func c09validCase(c c09Case) bool {
	if c.Slot < 0 || c.Slot > len(c.Chain) {
		return false
	}
	switch c.Fam {
	case "schema":
		if c.Kind != "default" && c.Kind != "example" {
			return false
		}
		if c.Slot < len(c.Chain) && c.Chain[c.Slot] == "ref" {
			return false // the value would become a sibling of $ref
		}
	case "simple":
		if c.Kind != "default" {
			return false
		}
		for _, x := range c.Chain {
			if x != "items" {
				return false
			}
		}
	case "examples":
		if c.Kind != "examples" || c.Slot != 0 {
			return false
		}
	default:
		return false
	}
	ok := false
	for _, r := range c09rootsOf(c.Fam) {
		ok = ok || r == c.Root
	}
	return ok
}

// c09build generates the document of a case.
func c09build(c c09Case) *c09built {
	nm := c09namesByID(c.Names)
	leaf := c09leafByID(c.Fam, c.Leaf)
	b := &c09built{}
	op := map[string]any{
		"operationId": "op",
		"responses":   map[string]any{"200": map[string]any{"description": "ok"}},
	}
	pathKey := c09path
	pathItem := map[string]any{"post": op}
	doc := map[string]any{
		"swagger": "2.0",
		"info":    map[string]any{"title": "t", "version": "1"},
	}
	defs := map[string]any{}
	var leafValue any
	switch c.Mode {
	case "accept":
		leafValue = c09json(leaf.Accept)
	case "reject":
		leafValue = c09json(leaf.Reject)
	}
	addParam := func(p any) int {
		l, _ := op["parameters"].([]any)
		op["parameters"] = append(l, p)
		return len(l)
	}
	resp200 := op["responses"].(map[string]any)["200"].(map[string]any)

	switch c.Fam {
	case "schema", "examples":
		lastProp, lastRef := -1, -1
		for i, x := range c.Chain {
			if x == "properties" {
				lastProp = i
			}
			if x == "ref" {
				lastRef = i
			}
		}
		propName := func(i int) string {
			if i == lastProp {
				return nm.P
			}
			return "o" + strconv.Itoa(i+1)
		}
		// value reaching the leaf from depth i
		var valueFrom func(i int) any
		valueFrom = func(i int) any {
			if i == len(c.Chain) {
				return leafValue
			}
			v := valueFrom(i + 1)
			switch c.Chain[i] {
			case "properties":
				return map[string]any{propName(i): v}
			case "items":
				return []any{v}
			case "tuple0":
				return []any{v, "f"}
			case "tuple1":
				return []any{"f", v}
			case "additionalProperties":
				return map[string]any{"k": v}
			}
			return v // allOf members and references do not change the instance
		}
		var slotObj map[string]any
		var build func(i int, path []string) map[string]any
		build = func(i int, path []string) map[string]any {
			var s map[string]any
			if i == len(c.Chain) {
				s = c09json(leaf.Schema).(map[string]any)
			} else {
				switch c.Chain[i] {
				case "properties":
					s = map[string]any{"type": "object", "properties": map[string]any{
						propName(i): build(i+1, append(append([]string{}, path...), "properties", propName(i)))}}
				case "items":
					s = map[string]any{"type": "array", "items": build(i+1, append(append([]string{}, path...), "items"))}
				case "tuple0":
					s = map[string]any{"type": "array", "items": []any{
						build(i+1, append(append([]string{}, path...), "items", "0")), map[string]any{"type": "string"}}}
				case "tuple1":
					s = map[string]any{"type": "array", "items": []any{
						map[string]any{"type": "string"}, build(i+1, append(append([]string{}, path...), "items", "1"))}}
				case "additionalProperties":
					s = map[string]any{"type": "object", "additionalProperties": build(i+1, append(append([]string{}, path...), "additionalProperties"))}
				case "allOf0":
					s = map[string]any{"allOf": []any{
						build(i+1, append(append([]string{}, path...), "allOf", "0")), map[string]any{"description": "filler"}}}
				case "allOf1":
					s = map[string]any{"allOf": []any{
						map[string]any{"description": "filler"}, build(i+1, append(append([]string{}, path...), "allOf", "1"))}}
				case "ref":
					name := "Sub" + strconv.Itoa(i+1)
					if i == lastRef {
						name = nm.D
					}
					defs[name] = build(i+1, []string{"definitions", name})
					s = map[string]any{"$ref": "#/definitions/" + name}
				default:
					panic("c09: unknown container " + c.Chain[i])
				}
			}
			if i == c.Slot {
				slotObj = s
				b.SlotPath = path
			}
			return s
		}
		var rootPath []string
		var holder map[string]any // the response object (examples family)
		place := func(s map[string]any) {}
		switch c.Root {
		case "definition":
			name := nm.D
			if lastRef >= 0 {
				name = "Root"
			}
			rootPath = []string{"definitions", name}
			place = func(s map[string]any) { defs[name] = s }
		case "response":
			rootPath = []string{"paths", pathKey, "post", "responses", "200", "schema"}
			place = func(s map[string]any) { resp200["schema"] = s; holder = resp200 }
		case "response-default":
			rootPath = []string{"paths", pathKey, "post", "responses", "default", "schema"}
			place = func(s map[string]any) {
				holder = map[string]any{"description": "d", "schema": s}
				op["responses"].(map[string]any)["default"] = holder
			}
		case "shared-response":
			rootPath = []string{"responses", "R", "schema"}
			place = func(s map[string]any) {
				holder = map[string]any{"description": "shared", "schema": s}
				doc["responses"] = map[string]any{"R": holder}
				op["responses"].(map[string]any)["200"] = map[string]any{"$ref": "#/responses/R"}
			}
		case "body":
			rootPath = []string{"paths", pathKey, "post", "parameters", "0", "schema"}
			place = func(s map[string]any) {
				addParam(map[string]any{"name": nm.Q, "in": "body", "schema": s})
			}
		case "shared-body":
			rootPath = []string{"parameters", "B", "schema"}
			place = func(s map[string]any) {
				doc["parameters"] = map[string]any{"B": map[string]any{"name": nm.Q, "in": "body", "schema": s}}
				addParam(map[string]any{"$ref": "#/parameters/B"})
			}
		default:
			panic("c09: unknown schema root " + c.Root)
		}
		root := build(0, rootPath)
		place(root)
		if c.Fam == "examples" {
			b.ValueKey = "examples"
			// the response object that carries the schema also carries the examples
			b.SlotPath = rootPath[:len(rootPath)-1]
			if c.Mode != "none" {
				b.Value = valueFrom(0)
				holder["examples"] = map[string]any{"application/json": b.Value}
			}
		} else {
			b.ValueKey = c.Kind
			if c.Mode != "none" {
				b.Value = valueFrom(c.Slot)
				slotObj[c.Kind] = b.Value
			}
		}

	case "simple":
		var valueFrom func(i int) any
		valueFrom = func(i int) any {
			if i == len(c.Chain) {
				return leafValue
			}
			return []any{valueFrom(i + 1)}
		}
		var slotObj map[string]any
		var slotRel []string
		var build func(i int, rel []string) map[string]any
		build = func(i int, rel []string) map[string]any {
			var s map[string]any
			if i == len(c.Chain) {
				s = c09json(leaf.Schema).(map[string]any)
			} else {
				s = map[string]any{"type": "array", "items": build(i+1, append(append([]string{}, rel...), "items"))}
			}
			if i == c.Slot {
				slotObj, slotRel = s, rel
			}
			return s
		}
		def := build(0, nil)
		b.ValueKey = "default"
		if c.Mode != "none" {
			b.Value = valueFrom(c.Slot)
			slotObj["default"] = b.Value
		}
		var at []string
		param := func(in string) map[string]any {
			p := map[string]any{"name": nm.Q, "in": in}
			for k, v := range def {
				p[k] = v
			}
			b.ParamIn, b.ParamNm = in, nm.Q
			return p
		}
		switch c.Root {
		case "query", "header", "formData":
			at = []string{"paths", pathKey, "post", "parameters", "0"}
			if c.Root == "formData" {
				op["consumes"] = []any{"application/x-www-form-urlencoded"}
			}
			addParam(param(c.Root))
		case "path":
			pathKey = c09path + "/{" + nm.Q + "}"
			p := param("path")
			p["required"] = true
			b.Required = true
			at = []string{"paths", pathKey, "post", "parameters", "0"}
			addParam(p)
		case "pathitem-query":
			at = []string{"paths", pathKey, "parameters", "0"}
			pathItem["parameters"] = []any{param("query")}
		case "shared-parameter":
			at = []string{"parameters", "S"}
			doc["parameters"] = map[string]any{"S": param("query")}
			addParam(map[string]any{"$ref": "#/parameters/S"})
		case "response-header":
			at = []string{"paths", pathKey, "post", "responses", "200", "headers", nm.H}
			resp200["headers"] = map[string]any{nm.H: def}
		case "default-response-header":
			at = []string{"paths", pathKey, "post", "responses", "default", "headers", nm.H}
			op["responses"].(map[string]any)["default"] = map[string]any{"description": "d", "headers": map[string]any{nm.H: def}}
		case "shared-response-header":
			at = []string{"responses", "R", "headers", nm.H}
			doc["responses"] = map[string]any{"R": map[string]any{"description": "shared", "headers": map[string]any{nm.H: def}}}
			op["responses"].(map[string]any)["200"] = map[string]any{"$ref": "#/responses/R"}
		default:
			panic("c09: unknown simple root " + c.Root)
		}
		b.SlotPath = append(at, slotRel...)
	default:
		panic("c09: unknown family " + c.Fam)
	}
	if len(defs) > 0 {
		doc["definitions"] = defs
	}
	doc["paths"] = map[string]any{pathKey: pathItem}
	b.Doc = doc
	return b
}

// c09at walks a decoded JSON value along object keys / array indexes.
func c09at(v any, path []string) any {
	for _, k := range path {
		switch t := v.(type) {
		case map[string]any:
			v = t[k]
		case []any:
			i, err := strconv.Atoi(k)
			if err != nil || i < 0 || i >= len(t) {
				return nil
			}
			v = t[i]
		default:
			return nil
		}
	}
	return v
}

// c09chains enumerates the container chains of a given depth over an alphabet.
func c09chains(alpha []string, depth int) [][]string {
	out := [][]string{nil}
	for d := 0; d < depth; d++ {
		var next [][]string
		for _, c := range out {
			for _, a := range alpha {
				next = append(next, append(append([]string{}, c...), a))
			}
		}
		out = next
	}
	return out
}

// c09groups enumerates the groups (a group = a case without kind and mode) of a tier, in a fixed
// order, without duplicates (two groups whose documents are identical are one group: a name scheme
// only matters where one of its names is used).
//
// Which combinations are crossed in full and which are sampled (sampling is by position in the
// enumeration, never random):
//
//	schema, depth 0-1   every root x every container; every name scheme where the container or the
//	                    root uses a name (properties, $ref), else `n` plus one rotating scheme;
//	                    composite values on the parent; stop-on-errors for the definition root
//	schema, depth 2     every chain over 5 (thorough 6) containers under the definition root with `n`,
//	                    plus a rotating other root with a rotating scheme for every 4th chain
//	                    (thorough: 4 roots x 2 schemes for every chain)
//	schema, depth 3     thorough only: every chain over 5 containers under the definition root
//	simple              every root x every name scheme at depth 0; items depth 1-2 (thorough 3)
//	examples            every root x every container; depth 2 with a rotating root
func c09groups(quick bool) []c09Case {
	var out []c09Case
	seen := map[string]bool{}
	add := func(g c09Case) {
		g.Kind, g.Mode = c09kindsOf(g.Fam)[0], "reject"
		if !c09validCase(g) {
			return
		}
		b := c09build(g)
		k := b.text() + "|" + strings.Join(b.SlotPath, "/") + "|" + strconv.FormatBool(g.Cont)
		if seen[k] {
			return
		}
		seen[k] = true
		g.Kind, g.Mode = "", ""
		out = append(out, g)
	}
	allNames := make([]string, 0, len(c09nameSchemes))
	for _, n := range c09nameSchemes {
		allNames = append(allNames, n.ID)
	}
	special := allNames[1:]
	maxDepth := 2
	if !quick {
		maxDepth = 3
	}
	ord := 0
	rotName := func() string { ord++; return special[ord%len(special)] }
	lf := 0
	rotLeaf := func(l []c09leaf) string { lf++; return l[lf%len(l)].ID }
	named := func(x string) bool { return x == "properties" || x == "ref" }

	// --- schema family, depth 0 and 1
	for depth := 0; depth <= 1; depth++ {
		for _, chain := range c09chains(c09containers, depth) {
			for ri, root := range c09schemaRoots {
				names := allNames // depth 0: the root's own name is the only name
				if depth == 1 && !named(chain[0]) {
					names = []string{"n", rotName()}
				}
				if depth == 1 && quick {
					switch {
					case named(chain[0]) && ri < 3: // definition, response, body: every scheme
					case !named(chain[0]) && ri == 0: // definition: n + one rotating scheme
					case !named(chain[0]) && ri >= 4 && chain[0] != "items":
						continue // shared roots: one unnamed container is enough
					default:
						names = []string{"n"}
					}
				}
				for _, nmID := range names {
					leaves := []string{rotLeaf(c09schemaLeaves)}
					if ri == 0 {
						// the core every shrink ends in: first root, plainest leaf
						leaves = []string{"int"}
					}
					if !quick && nmID == "n" {
						leaves = []string{"int", "str", "obj"}
					}
					for _, leaf := range leaves {
						g := c09Case{Fam: "schema", Root: root, Chain: chain, Slot: depth, Names: nmID, Leaf: leaf, Cont: true}
						add(g)
						if nmID != "n" {
							continue
						}
						if depth == 1 && (ri == 0 || (!quick && ri < 4 && leaf != "obj")) { // composite value on the parent of the leaf
							g.Slot = 0
							add(g)
						}
						if ri == 0 || (!quick && ri < 4 && leaf == "int") { // stop-on-errors mode
							g.Slot, g.Cont = depth, false
							add(g)
						}
					}
				}
			}
		}
	}
	// --- schema family, depth 2 and 3
	deep2 := []string{"properties", "items", "additionalProperties", "allOf1", "tuple1", "ref"}
	deep3 := []string{"properties", "items", "additionalProperties", "allOf1", "ref"}
	for depth := 2; depth <= maxDepth; depth++ {
		alpha := deep2
		if depth == 3 || quick {
			alpha = deep3
		}
		for ci, chain := range c09chains(alpha, depth) {
			leaf := rotLeaf(c09schemaLeaves)
			add(c09Case{Fam: "schema", Root: "definition", Chain: chain, Slot: depth, Names: "n", Leaf: leaf, Cont: true})
			switch {
			case depth == 2 && quick:
				if ci%4 == 0 {
					add(c09Case{Fam: "schema", Root: c09schemaRoots[1+(ci/4)%3], Chain: chain, Slot: depth, Names: rotName(), Leaf: leaf, Cont: true})
				}
			case depth == 2:
				sp := rotName()
				for _, root := range c09schemaRoots[:4] {
					add(c09Case{Fam: "schema", Root: root, Chain: chain, Slot: depth, Names: "n", Leaf: leaf, Cont: true})
					add(c09Case{Fam: "schema", Root: root, Chain: chain, Slot: depth, Names: sp, Leaf: leaf, Cont: true})
				}
				add(c09Case{Fam: "schema", Root: "definition", Chain: chain, Slot: 1, Names: "n", Leaf: leaf, Cont: true})
			case depth == 3:
				if ci%3 == 0 {
					add(c09Case{Fam: "schema", Root: c09schemaRoots[1+(ci/3)%3], Chain: chain, Slot: depth, Names: rotName(), Leaf: leaf, Cont: true})
				}
			}
		}
	}

	// composite values reaching the leaf through named members, every name scheme
	for _, nmID := range allNames {
		add(c09Case{Fam: "schema", Root: "definition", Chain: []string{"properties", "properties"}, Slot: 0, Names: nmID, Leaf: "int", Cont: true})
	}

	// values that look like schema objects: {"type":"array"} (a member named type holding the word
	// array, no member items) as the value itself and one level down
	for _, root := range []string{"definition", "response", "body"} {
		add(c09Case{Fam: "schema", Root: root, Chain: []string{"properties"}, Slot: 0, Names: "type", Leaf: "kw", Cont: true})
		add(c09Case{Fam: "schema", Root: root, Chain: []string{"properties", "properties"}, Slot: 0, Names: "type", Leaf: "kw", Cont: true})
		add(c09Case{Fam: "schema", Root: root, Chain: []string{"properties", "properties"}, Slot: 1, Names: "type", Leaf: "kw", Cont: true})
	}

	// zero-valued rejected values: at every schema root, under every container, and on simple
	// parameters / headers and their items
	for _, lf := range c09zeroSchemaLeaves {
		for _, root := range c09schemaRoots {
			add(c09Case{Fam: "schema", Root: root, Chain: []string{}, Slot: 0, Names: "n", Leaf: lf.ID, Cont: true})
		}
		for ci, cont := range c09containers {
			add(c09Case{Fam: "schema", Root: c09schemaRoots[ci%3], Chain: []string{cont}, Slot: 1, Names: "n", Leaf: lf.ID, Cont: true})
		}
	}
	for _, lf := range c09zeroSimpleLeaves {
		for _, root := range c09simpleRoots {
			add(c09Case{Fam: "simple", Root: root, Chain: []string{}, Slot: 0, Names: "n", Leaf: lf.ID, Cont: true})
		}
		for _, root := range []string{"query", "response-header"} {
			add(c09Case{Fam: "simple", Root: root, Chain: []string{"items"}, Slot: 1, Names: "n", Leaf: lf.ID, Cont: true})
		}
	}

	// --- simple family
	for depth := 0; depth <= maxDepth; depth++ {
		chain := make([]string, depth)
		for i := range chain {
			chain[i] = "items"
		}
		for _, root := range c09simpleRoots {
			names := allNames
			if depth == 0 && quick && root != "query" && root != "path" && root != "response-header" {
				names = []string{"n", rotName()}
			}
			if depth >= 1 && quick {
				names = []string{"n"}
				if root == "query" || root == "response-header" {
					names = append(names, rotName())
				}
			}
			if depth >= 2 {
				names = []string{"n"}
				if !quick {
					names = append(names, rotName())
				}
			}
			for _, nmID := range names {
				leaves := []string{rotLeaf(c09simpleLeaves)}
				if root == c09simpleRoots[0] {
					leaves = []string{"int"}
				}
				if !quick && nmID == "n" {
					leaves = []string{"int", "str"}
				}
				if depth == 2 && nmID == "n" && (root == "query" || root == "response-header") {
					leaves = []string{"int", "str"} // innermost type and enum violations both
				}
				for _, leaf := range leaves {
					g := c09Case{Fam: "simple", Root: root, Chain: chain, Slot: depth, Names: nmID, Leaf: leaf, Cont: true}
					add(g)
					if nmID != "n" {
						continue
					}
					for slot := depth - 1; slot >= 0; slot-- { // array values on an ancestor
						if quick && depth != 2 && slot < depth-1 {
							break
						}
						if quick && depth == 2 && root != "query" && root != "response-header" {
							break // quick: array-of-array values on an ancestor for one parameter and one header root
						}
						g.Slot = slot
						add(g)
					}
					if depth <= 1 && (!quick || root == "query" || root == "response-header") {
						g.Slot, g.Cont = depth, false
						add(g)
					}
				}
			}
		}
	}

	// --- response examples
	for depth := 0; depth <= 2; depth++ {
		alpha := c09containers
		if depth == 2 {
			alpha = deep2
		}
		for ci, chain := range c09chains(alpha, depth) {
			for ri, root := range c09examplesRoots {
				if depth == 2 && quick && !(ri == 0 && ci == 0) && (ri != ci%3 || ci%2 == 1) {
					continue
				}
				names := []string{"n"}
				if depth == 1 && named(chain[0]) && (ri == 0 || !quick) {
					names = allNames
				} else if depth == 2 && ri == 0 && chain[0] == "properties" && chain[1] == "properties" {
					names = allNames
				} else if depth >= 1 && !quick {
					names = []string{"n", rotName()}
				}
				for _, nmID := range names {
					leaf := rotLeaf(c09schemaLeaves)
					if ri == 0 && (depth <= 1 || len(names) > 2) {
						leaf = "int"
					}
					g := c09Case{Fam: "examples", Root: root, Chain: chain, Slot: 0, Names: nmID, Leaf: leaf, Cont: true}
					add(g)
					if depth == 0 && (ri == 0 || !quick) {
						g.Cont = false
						add(g)
					}
				}
			}
		}
	}
	return out
}

func c09kindsOf(fam string) []string {
	switch fam {
	case "schema":
		return []string{"default", "example"}
	case "simple":
		return []string{"default"}
	}
	return []string{"examples"}
}

// c09variants lists the cases of a group: baseline first.
func c09variants(g c09Case) []c09Case {
	base := g
	base.Kind, base.Mode = c09kindsOf(g.Fam)[0], "none"
	out := []c09Case{base}
	for _, k := range c09kindsOf(g.Fam) {
		for _, m := range []string{"accept", "reject"} {
			v := g
			v.Kind, v.Mode = k, m
			out = append(out, v)
		}
	}
	return out
}

func c09sortedKeys(m map[string]int64) []string {
	ks := make([]string, 0, len(m))
	for k := range m {
		ks = append(ks, k)
	}
	sort.Strings(ks)
	return ks
}
