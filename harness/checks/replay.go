package checks

import (
	"encoding/json"
	"fmt"
	"os"
	"path/filepath"

	"github.com/go-openapi/validate/verifrt"

	"verif/harness/hx"
)

// Replay re-executes the case stored in a replay file written by hx.Finish and reports whether it
// still violates the property. Exit code: 1 = reproduced (prints a VIOLATION line), 0 = not reproduced,
// 2 = this kind of replay file is not supported.
func Replay(id, path string) int {
	b, err := os.ReadFile(path)
	if err != nil && !filepath.IsAbs(path) {
		path = filepath.Join(hx.VerifDir, path)
		b, err = os.ReadFile(path)
	}
	if err != nil {
		fmt.Fprintln(os.Stderr, "replay:", err)
		return 2
	}
	var f struct {
		Property  string         `json:"property"`
		Signature string         `json:"signature"`
		What      string         `json:"what"`
		Replay    map[string]any `json:"replay"`
	}
	if err := json.Unmarshal(b, &f); err != nil {
		fmt.Fprintln(os.Stderr, "replay:", err)
		return 2
	}
	str := func(k string) string { s, _ := f.Replay[k].(string); return s }
	report := func(d string) int {
		// every violation is re-run 5 times and must reproduce identically
		if d == "" {
			fmt.Printf("replay: property=%s not reproduced on the current tree (%s)\n", id, f.Signature)
			return 0
		}
		fmt.Printf("VIOLATION property=%s replay=%s\n  what: %s\n", id, path, d)
		return 1
	}
	again := func(run func() string) int {
		first := run()
		for i := 0; i < 4; i++ {
			if x := run(); x != first {
				fmt.Fprintf(os.Stderr, "HARNESS-ERROR replay is not deterministic: %q then %q\n", first, x)
				return 2
			}
		}
		return report(first)
	}
	switch id {
	case "C01", "C02":
		return again(func() string { return c01disagree(str("schema"), str("instance")) })
	case "C06":
		num, _ := f.Replay["use_number"].(bool)
		return again(func() string {
			for _, m := range c06modes(true) {
				if d := c06run(str("schema"), str("instance"), num, m); d != "" {
					return m.name + ": " + d
				}
			}
			return ""
		})
	case "C12":
		return again(func() string {
			for mode := 0; mode < 4; mode++ {
				if d := c12schemaCase(str("schema"), str("instance"), mode); d != "" {
					return d
				}
			}
			return ""
		})
	case "C17":
		restricted, _ := f.Replay["restricted"].(bool)
		return again(func() string { return c17check(str("schema"), str("instance"), str("root"), restricted) })
	case "C18", "C19":
		return again(func() string { return pcJudge(id, str("schema"), str("instance")) })
	case "C04", "C11":
		var ops []Op
		raw, _ := json.Marshal(f.Replay["ops"])
		if id == "C11" {
			var fw Op
			r1, _ := json.Marshal(f.Replay["faulted"])
			json.Unmarshal(r1, &fw)
			raw, _ = json.Marshal(f.Replay["follow_ups"])
			var fu []Op
			json.Unmarshal(raw, &fu)
			ops = append([]Op{fw}, fu...)
		} else {
			json.Unmarshal(raw, &ops)
		}
		var prefix []int
		r2, _ := json.Marshal(f.Replay["pool_choices"])
		json.Unmarshal(r2, &prefix)
		if len(ops) == 0 {
			return 2
		}
		return again(func() string {
			from := len(ops) - 1
			if id == "C11" {
				from = 1
			}
			policy := verifrt.PolicyLIFO
			if p, _ := f.Replay["policy"].(string); p == "FIFO" {
				policy = verifrt.PolicyFIFO
			}
			outs, _ := runHistory(ops, policy, prefix, from, true)
			for i := range ops {
				if id == "C11" && i == 0 {
					continue
				}
				if d := outcomeDiff(outs[i], soloOutcome(ops[i])); d != "" {
					return fmt.Sprintf("call %d %s: %s", i, ops[i], d)
				}
			}
			return ""
		})
	}
	fmt.Fprintf(os.Stderr, "replay of %s files is not automated; the file holds the scenario, the schedule/choice vector and both outcomes:\n%s\n", id, b)
	_ = hx.JSON
	return 2
}
