package checks

import "verif/harness/hx"

// Registry maps a property id to its check. A check returns the process exit code.
var Registry = map[string]func(c *hx.Ctx) int{}
