package checks

import (
	"fmt"
	"os"
	"regexp"
	"sort"
	"strconv"
	"strings"

	"github.com/go-openapi/strfmt"
	"github.com/go-openapi/validate/verifrt"

	"verif/harness/hx"
	"verif/harness/ref/draft4"
	"verif/harness/ref/simple"
)

// C09 — spec defaults and examples are judged exactly as their schema judges them.
//
// Every generated document is validated next to its baseline (the same document without the value):
//
//	rejected default            => the error set grows (and nothing disappears)
//	rejected example / examples => the warning set grows, the error set does not
//	accepted value              => (errors, warnings) equal the baseline's
//
// The accept/reject labels are by construction and are re-derived with the reference evaluators
// (ref/draft4 for Schema Objects, ref/simple for parameters, headers and their items); a label the
// reference does not confirm is a harness error. Panics belong to C07: counted, noted, skipped.

func init() {
	Registry["C09"] = c09
	corpusProviders["C09"] = c09Corpus
}

// ------------------------------------------------------------------------------------------
// running and judging

func c09run(text string, cont bool) hx.Outcome {
	val := ""
	if cont {
		val = "continue"
	}
	out := Op{Kind: "spec", Def: text, Val: val}.Run()
	if out.Panic != "" {
		resetPools()
	}
	return out
}

func c09minus(a, b []string) []string {
	in := map[string]bool{}
	for _, x := range b {
		in[x] = true
	}
	var out []string
	for _, x := range a {
		if !in[x] {
			out = append(out, x)
		}
	}
	return out
}

// c09reference re-derives the label of a built case: does the schema at the slot accept the value?
func c09reference(c c09Case, b *c09built) (accepts bool, err error) {
	defer func() {
		if r := recover(); r != nil {
			err = fmt.Errorf("reference evaluator panics: %v", r)
		}
	}()
	root, perr := draft4.ParseSchema(b.text())
	if perr != nil {
		return false, perr
	}
	at := c09at(root, b.SlotPath)
	holder, ok := at.(map[string]any)
	if !ok {
		return false, fmt.Errorf("slot path %v does not lead to an object", b.SlotPath)
	}
	val, ok := holder[b.ValueKey]
	if !ok {
		return false, fmt.Errorf("no %s at slot path %v", b.ValueKey, b.SlotPath)
	}
	switch c.Fam {
	case "schema":
		ev := &draft4.Evaluator{Root: root, Formats: strfmt.Default}
		return ev.Valid(holder, val), nil
	case "examples":
		sch, ok := holder["schema"].(map[string]any)
		if !ok {
			return false, fmt.Errorf("response at %v has no schema", b.SlotPath)
		}
		val = val.(map[string]any)["application/json"]
		ev := &draft4.Evaluator{Root: root, Formats: strfmt.Default}
		return ev.Valid(sch, val), nil
	case "simple":
		// the reference for simple schemas works on what encoding/json yields by default
		plain := c09at(b.Doc, b.SlotPath).(map[string]any)
		return simple.Valid(c09simpleDef(plain), plain["default"]), nil
	}
	return false, fmt.Errorf("unknown family")
}

func c09simpleDef(m map[string]any) *simple.Def {
	d := &simple.Def{}
	d.Type, _ = m["type"].(string)
	d.Format, _ = m["format"].(string)
	if e, ok := m["enum"].([]any); ok {
		d.Enum = e
	}
	if x, ok := m["maximum"].(float64); ok {
		d.Maximum = &x
	}
	if x, ok := m["minimum"].(float64); ok {
		d.Minimum = &x
	}
	if it, ok := m["items"].(map[string]any); ok {
		d.Items = c09simpleDef(it)
	}
	for k := range m {
		switch k {
		case "type", "format", "enum", "maximum", "minimum", "items", "default", "name", "in", "required", "description":
		default:
			panic("c09simpleDef: keyword outside the converter: " + k)
		}
	}
	return d
}

// c09judge compares a variant with its baseline. class "" = as the property demands.
func c09judge(c c09Case, b *c09built, base, got hx.Outcome) (class, detail string) {
	newE, lostE := c09minus(got.Errors, base.Errors), c09minus(base.Errors, got.Errors)
	newW, lostW := c09minus(got.Warnings, base.Warnings), c09minus(base.Warnings, got.Warnings)
	if b.Required && c.Kind == "default" {
		// documented extra rule, independent of the value: a required parameter with a default
		exp := fmt.Sprintf("%s in %s has a default value and is required as parameter", b.ParamNm, b.ParamIn)
		newW = c09minus(newW, []string{exp})
	}
	desc := fmt.Sprintf("new errors %q, new warnings %q, lost errors %q, lost warnings %q", newE, newW, lostE, lostW)
	if len(lostE)+len(lostW) > 0 {
		return "lost", desc
	}
	switch {
	case c.Mode == "accept":
		if len(newE)+len(newW) > 0 {
			// the kind of message is part of the class: shrinking towards another name scheme must
			// not trade one spurious message for a different one (two causes, two findings)
			return "spurious:" + c09msgKind(append(append([]string{}, newE...), newW...)), desc
		}
	case c.Kind == "default":
		if len(newE) == 0 {
			if len(newW) > 0 {
				return "warning-only", desc
			}
			return "missed", desc
		}
	default: // rejected example / examples
		if len(newE) > 0 {
			return "as-error", desc
		}
		if len(newW) == 0 {
			return "missed", desc
		}
	}
	return "", desc
}

func c09classText(c c09Case, class string) string {
	switch class {
	case "missed":
		return c.Kind + " rejected by its schema not reported"
	case "warning-only":
		return c.Kind + " rejected by its schema reported as warning only"
	case "as-error":
		return c.Kind + " rejected by its schema reported as error"
	case "spurious":
		return c.Kind + " accepted by its schema changes the outcome"
	case "lost":
		return c.Kind + " value (" + c.Mode + "ed by its schema) makes other messages disappear"
	}
	if strings.HasPrefix(class, "spurious:") {
		return c.Kind + " accepted by its schema changes the outcome (" + strings.TrimPrefix(class, "spurious:") + ")"
	}
	return c.Kind + " " + class
}

var c09reQuoted = regexp.MustCompile(`"[^"]*"`)

// c09msgKind abstracts the first (in sorted order) message to its template: quoted texts, dotted
// paths and numbers are replaced.
func c09msgKind(msgs []string) string {
	sort.Strings(msgs)
	var kinds []string
	for _, m := range msgs {
		m = c09reQuoted.ReplaceAllString(m, "…")
		f := strings.Fields(m)
		for i, w := range f {
			if strings.Contains(w, ".") && len(w) > 1 {
				f[i] = "…"
			} else if _, err := strconv.Atoi(strings.Trim(w, ",:")); err == nil {
				f[i] = "N"
			}
		}
		kinds = append(kinds, strings.Join(f, " "))
	}
	sort.Strings(kinds)
	for _, k := range kinds {
		if !strings.Contains(k, "does not validate its schema") { // the summary line that accompanies every cause
			return k
		}
	}
	return kinds[0]
}

// c09signature is canonical text, no hashes, nothing order dependent.
func c09signature(c c09Case, class string) string {
	loc := c
	loc.Chain = c.Chain[:c.Slot]
	s := fmt.Sprintf("%s: location=%s name=%s depth=%d", c09classText(c, class), loc.location(), c.Names, c.Slot)
	if c.Slot < len(c.Chain) {
		var through []string
		for _, x := range c.Chain[c.Slot:] {
			through = append(through, c09containerClass(x))
		}
		s += " value-reaches-leaf-through=" + strings.Join(through, ".")
	}
	if c.Leaf != "int" {
		s += " leaf=" + c.Leaf
	}
	if !c.Cont {
		s += " mode=stop-on-errors"
	}
	return s
}

// c09eval runs one group: baseline + variants. It returns key -> class ("" ok, "panic", other).
type c09res struct {
	Key       string
	Class     string
	Detail    string
	Got, Base hx.Outcome
}

var c09baseCache = map[string]hx.Outcome{}

// c09announce: workers announce each case on the progress pipe (crash attribution).
var c09announce bool

func c09case(k string) {
	if c09announce {
		hx.AnnounceCase(k)
	}
}

func c09evalGroup(g c09Case, only *c09Case, rep *hx.Report, sets *hx.SetAdder) (out []c09res, harnessErr string) {
	vars := c09variants(g)
	baseB := c09build(vars[0])
	c09case(vars[0].key())
	var base hx.Outcome
	cacheKey := strconv.FormatBool(g.Cont) + baseB.text()
	if cached, ok := c09baseCache[cacheKey]; ok && only != nil {
		base = cached // shrinking revisits the same baseline for several candidates
	} else {
		base = c09run(baseB.text(), g.Cont)
		rep.Inc("validations", 1)
		if len(c09baseCache) < 5000 {
			c09baseCache[cacheKey] = base
		}
	}
	if sets != nil {
		sets.Add("documents", baseB.text())
	}
	if strings.HasPrefix(base.Panic, "document does not load") || strings.HasPrefix(base.Panic, "unknown op") {
		return nil, "generated baseline " + vars[0].key() + ": " + base.Panic
	}
	if base.Panic != "" {
		rep.Inc("panics", 1)
		for _, v := range vars[1:] {
			out = append(out, c09res{Key: v.key(), Class: "panic", Detail: "baseline: " + base.Panic})
		}
		return out, ""
	}
	if len(base.Errors) > 0 {
		return nil, fmt.Sprintf("generated baseline %s is not a valid document: %q", vars[0].key(), base.Errors)
	}
	for _, v := range vars[1:] {
		if only != nil && (only.Kind != v.Kind || only.Mode != v.Mode) {
			continue
		}
		b := c09build(v)
		acc, err := c09reference(v, b)
		if err != nil {
			return nil, "reference cannot judge " + v.key() + ": " + err.Error()
		}
		if acc != (v.Mode == "accept") {
			return nil, fmt.Sprintf("label of %s disagrees with the reference (reference accepts=%v)", v.key(), acc)
		}
		text := b.text()
		c09case(v.key())
		got := c09run(text, g.Cont)
		rep.Inc("validations", 1)
		if sets != nil {
			sets.Add("documents", text)
			if v.Mode == "reject" {
				sets.Add("nontrivial", text)
			}
		}
		if got.Panic != "" {
			if strings.HasPrefix(got.Panic, "document does not load") {
				return nil, "generated document " + v.key() + ": " + got.Panic
			}
			rep.Inc("panics", 1)
			out = append(out, c09res{Key: v.key(), Class: "panic", Detail: got.Panic})
			continue
		}
		class, detail := c09judge(v, b, base, got)
		out = append(out, c09res{v.key(), class, detail, got, base})
	}
	return out, ""
}

// ------------------------------------------------------------------------------------------
// shrinking over the enumerated domain

func c09index(l []string, x string) int {
	for i, y := range l {
		if y == x {
			return i
		}
	}
	return -1
}

// c09simpler lists strictly simpler cases: shallower first, then towards the first root, then towards
// the plainest names, then earlier containers, kind, leaf, mode (shallow cases under the first root
// are the most densely enumerated ones, so most candidates are already in the table).
func c09simpler(c c09Case) []c09Case {
	var out []c09Case
	cp := func() c09Case {
		d := c
		d.Chain = append([]string{}, c.Chain...)
		return d
	}
	// depth
	for pos := range c.Chain {
		d := cp()
		d.Chain = append(d.Chain[:pos], d.Chain[pos+1:]...)
		if pos < c.Slot {
			d.Slot--
		}
		if d.Slot > len(d.Chain) {
			d.Slot = len(d.Chain)
		}
		out = append(out, d)
	}
	if c.Fam != "examples" && c.Slot < len(c.Chain) {
		d := cp()
		d.Slot = len(c.Chain)
		out = append(out, d)
	}
	// location order
	roots := c09rootsOf(c.Fam)
	for i := 0; i < c09index(roots, c.Root); i++ {
		d := cp()
		d.Root = roots[i]
		out = append(out, d)
	}
	// names
	for i, n := range c09nameSchemes {
		if n.ID == c.Names {
			break
		}
		d := cp()
		d.Names = c09nameSchemes[i].ID
		out = append(out, d)
	}
	if c.Fam != "simple" {
		// every occurrence of one container replaced by an earlier container
		did := map[string]bool{}
		for _, x := range c.Chain {
			if did[x] {
				continue
			}
			did[x] = true
			for i := 0; i < c09index(c09containers, x); i++ {
				d := cp()
				n := 0
				for pos := range d.Chain {
					if d.Chain[pos] == x {
						d.Chain[pos] = c09containers[i]
						n++
					}
				}
				if n > 1 {
					out = append(out, d)
				}
			}
		}
		if len(c.Chain) == 1 { // deeper chains are first shortened
			for i := 0; i < c09index(c09containers, c.Chain[0]); i++ {
				d := cp()
				d.Chain[0] = c09containers[i]
				out = append(out, d)
			}
		}
	}
	// kind
	if c.Kind == "example" {
		d := cp()
		d.Kind = "default"
		out = append(out, d)
	}
	// leaf
	leaves := c09schemaLeaves
	if c.Fam == "simple" {
		leaves = c09simpleLeaves
	}
	for _, l := range leaves {
		if l.ID == c.Leaf {
			break
		}
		d := cp()
		d.Leaf = l.ID
		out = append(out, d)
	}
	if !c.Cont {
		d := cp()
		d.Cont = true
		out = append(out, d)
	}
	var valid []c09Case
	for _, d := range out {
		if c09validCase(d) {
			valid = append(valid, d)
		}
	}
	return valid
}

type c09table struct {
	class map[string]string // case key -> class (a cache: classOf is a pure function of the case)
	rep   *hx.Report
}

func (t *c09table) classOf(c c09Case) string {
	if cl, ok := t.class[c.key()]; ok {
		return cl
	}
	// identical documents under another name scheme were enumerated once: evaluate on demand
	if os.Getenv("C09_TRACE") != "" {
		fmt.Fprintln(os.Stderr, "on-demand", c.key())
	}
	g := c
	res, herr := c09evalGroup(g, &c, t.rep, nil)
	cl := "panic"
	if herr != "" {
		cl = "outside"
	}
	for _, r := range res {
		if r.Key == c.key() {
			cl = r.Class
		}
	}
	t.class[c.key()] = cl
	return cl
}

func (t *c09table) shrink(c c09Case, class string) c09Case {
	for steps := 0; steps < 200; steps++ {
		moved := false
		for _, d := range c09simpler(c) {
			if t.classOf(d) == class {
				c, moved = d, true
				break
			}
		}
		if !moved {
			break
		}
	}
	return c
}

// ------------------------------------------------------------------------------------------

// c09selected applies the debugging filter `--only <substring of the group key>`.
func c09selected(c *hx.Ctx) ([]c09Case, string) {
	groups := c09groups(c.Quick())
	only := ""
	for i, a := range c.Args {
		if a == "--only" && i+1 < len(c.Args) {
			only = c.Args[i+1]
		}
	}
	if only == "" {
		return groups, ""
	}
	var out []c09Case
	for _, g := range groups {
		if strings.Contains(g.groupKey(), only) {
			out = append(out, g)
		}
	}
	return out, only
}

func c09(c *hx.Ctx) int {
	verifrt.SetMapPolicy(0)
	if len(c.Args) >= 1 && c.Args[0] == "--dump" {
		return c09dump(c)
	}
	if c.Worker >= 0 {
		for i, a := range c.Args {
			if a == "--shrink" && i+1 < len(c.Args) {
				return c09shrinkWorker(c, c.Args[i+1])
			}
		}
		return c09worker(c)
	}
	if c.Quick() {
		c.Budget = 420 * second
	} else {
		c.Budget = 1500 * second
	}
	groups, only := c09selected(c)
	rep := c.RunWorkers(16, 16, c.Args...)
	if only != "" {
		rep.Exhaustive = false
		rep.Notes = append(rep.Notes, "debugging filter --only "+only+": coverage requirements not enforced")
	}
	if rep.HarnessErr != "" {
		return hx.Finish(c, "exploration", rep, map[string]any{}, nil)
	}

	tab := &c09table{class: map[string]string{}, rep: rep}
	details, minOf := map[string]string{}, map[string]string{}
	var table strings.Builder
	nFailing := 0
	for _, line := range rep.Sets["results"] {
		f := strings.Split(line, "\t")
		tab.class[f[0]] = f[1]
		if len(f) > 2 {
			details[f[0]] = f[2]
		}
		table.WriteString(f[0] + "\t" + f[1] + "\n")
		if f[1] != "" && f[1] != "panic" {
			nFailing++
		}
	}
	delete(rep.Sets, "results")
	if nFailing > 0 {
		// second round: the failing cases are shrunk in parallel, every worker holding the whole table
		os.MkdirAll(hx.VerifDir+"/.work", 0o755)
		f, err := os.CreateTemp(hx.VerifDir+"/.work", "c09-table-")
		if err != nil {
			rep.HarnessErr = "cannot write the shrink table: " + err.Error()
			return hx.Finish(c, "exploration", rep, map[string]any{}, nil)
		}
		f.WriteString(table.String())
		f.Close()
		rep2 := c.RunWorkers(16, 16, append(append([]string{}, c.Args...), "--shrink", f.Name())...)
		if keep := os.Getenv("C09_KEEP_TABLE"); keep != "" { // debugging aid
			os.WriteFile(keep, []byte(table.String()), 0o644)
		}
		os.Remove(f.Name())
		for _, line := range rep2.Sets["minima"] {
			kv := strings.Split(line, "\t")
			minOf[kv[0]] = kv[1]
		}
		delete(rep2.Sets, "minima")
		rep.Merge(rep2)
		if rep.HarnessErr != "" {
			return hx.Finish(c, "exploration", rep, map[string]any{}, nil)
		}
	}

	// coverage per location class, from the cases actually judged
	type ar struct{ acc, rej int64 }
	covRoot, covVia := map[string]*ar{}, map[string]*ar{}
	bump := func(m map[string]*ar, k string, acc bool) {
		if m[k] == nil {
			m[k] = &ar{}
		}
		if acc {
			m[k].acc++
		} else {
			m[k].rej++
		}
	}
	locations, locNames := map[string]bool{}, map[string]bool{}
	var keys []string
	for k := range tab.class {
		keys = append(keys, k)
	}
	sort.Strings(keys)
	judged := 0
	panicsAt := map[string]string{}
	for _, k := range keys {
		cs := c09parseKey(k)
		if tab.class[k] == "panic" {
			at := "location=" + cs.location() + " name=" + cs.Names
			if _, ok := panicsAt[at]; !ok {
				panicsAt[at] = details[k]
			}
			continue
		}
		judged++
		fam := cs.Fam + ":"
		bump(covRoot, fam+cs.Root+":"+cs.Kind, cs.Mode == "accept")
		for _, x := range cs.Chain[:cs.Slot] {
			bump(covVia, fam+c09containerClass(x)+":"+cs.Kind, cs.Mode == "accept")
		}
		locations[cs.location()+"@"+strconv.Itoa(cs.Slot)] = true
		locNames[cs.location()+"@"+strconv.Itoa(cs.Slot)+"/"+cs.Names] = true
	}
	perLoc := map[string]any{}
	var uncovered []string
	want := map[string][]string{}
	for _, fam := range []string{"schema", "simple", "examples"} {
		for _, r := range c09rootsOf(fam) {
			for _, k := range c09kindsOf(fam) {
				want["root"] = append(want["root"], fam+":"+r+":"+k)
			}
		}
	}
	for _, x := range c09containers {
		for _, k := range c09kindsOf("schema") {
			want["via"] = append(want["via"], "schema:"+c09containerClass(x)+":"+k)
		}
	}
	want["via"] = append(want["via"], "simple:items:default")
	for _, w := range want["root"] {
		a := covRoot[w]
		if a == nil || a.acc == 0 || a.rej == 0 {
			uncovered = append(uncovered, "root "+w)
			continue
		}
		perLoc["root "+w] = map[string]int64{"accepted": a.acc, "rejected": a.rej}
	}
	for _, w := range want["via"] {
		a := covVia[w]
		if a == nil || a.acc == 0 || a.rej == 0 {
			uncovered = append(uncovered, "through "+w)
			continue
		}
		perLoc["through "+w] = map[string]int64{"accepted": a.acc, "rejected": a.rej}
	}
	if len(uncovered) > 0 && rep.Exhaustive {
		rep.HarnessErr = "location classes not exercised with both an accepted and a rejected value: " + strings.Join(uncovered, "; ")
	}
	if rep.SetSize("nontrivial") < 2 {
		rep.HarnessErr = "vacuous run: fewer than 2 distinct documents carrying a rejected value"
	}

	// violations: shrink every failing case over the domain, keep the minima
	minima := map[string]c09Case{}
	minClass := map[string]string{}
	found := map[string][]string{}
	failing := 0
	for _, k := range keys {
		class := tab.class[k]
		if class == "" || class == "panic" || class == "outside" {
			continue
		}
		failing++
		cs := c09parseKey(k)
		m := cs
		if mk, ok := minOf[k]; ok { // shrunk by the worker that found it (a pure function of the case)
			m = c09parseKey(mk)
		} else {
			m = tab.shrink(cs, class)
		}
		sig := c09signature(m, class)
		minima[sig], minClass[sig] = m, class
		if len(found[sig]) < 40 {
			found[sig] = append(found[sig], c09signature(cs, class))
		}
	}
	var sigs []string
	for s := range minima {
		sigs = append(sigs, s)
	}
	sort.Strings(sigs)
	for _, sig := range sigs {
		m, class := minima[sig], minClass[sig]
		// reproduce once more (fresh pools, this process: the third observation after round one and the shrink round) and collect the replay material
		vb, bb := c09build(m), c09build(c09variants(m)[0])
		var detail string
		var got, base hx.Outcome
		okRepro := true
		for i := 0; i < 1; i++ {
			resetPools()
			res, herr := c09evalGroup(m, &m, rep, nil)
			if herr != "" || len(res) != 1 || res[0].Class != class {
				okRepro = false
				detail = fmt.Sprint(herr, res)
				break
			}
			detail, got, base = res[0].Detail, res[0].Got, res[0].Base
		}
		if !okRepro {
			rep.HarnessErr = "violation does not reproduce: " + sig + ": " + detail
			break
		}
		rep.AddViolation(hx.Violation{
			Signature: sig,
			What:      fmt.Sprintf("%s (%s); %d failing case(s) shrink to this one", sig, detail, len(found[sig])),
			Replay: map[string]any{
				"case": m, "document": vb.text(), "document_without_value": bb.text(), "value": vb.Value, "value_at": strings.Join(vb.SlotPath, "/") + "/" + vb.ValueKey,
				"outcome": got, "outcome_without_value": base, "shrunk_from": found[sig],
			},
		})
	}

	var panicNotes []string
	for at, txt := range panicsAt {
		panicNotes = append(panicNotes, "panic (C07's subject, cases skipped): "+at+": "+txt)
	}
	sort.Strings(panicNotes)
	if len(panicNotes) > 30 {
		panicNotes = append(panicNotes[:30], fmt.Sprintf("... and %d more panicking (location,name) pairs", len(panicNotes)-30))
	}
	rep.Notes = append(rep.Notes, panicNotes...)

	for _, s := range []c09Case{
		{Fam: "schema", Root: "definition", Chain: []string{"properties"}, Slot: 1, Names: "n", Leaf: "int", Kind: "default", Mode: "reject", Cont: true},
		{Fam: "simple", Root: "response-header", Chain: []string{"items"}, Slot: 1, Names: "n", Leaf: "int", Kind: "default", Mode: "reject", Cont: true},
		{Fam: "examples", Root: "response", Chain: []string{"ref", "properties"}, Slot: 0, Names: "t-inside-Pet", Leaf: "str", Kind: "examples", Mode: "reject", Cont: true},
	} {
		rep.Samples = append(rep.Samples, map[string]any{"case": s.key(), "document": c09json(c09build(s).text())})
	}

	cov := map[string]any{
		"evaluations":         rep.Counters["validations"],
		"distinct_nontrivial": rep.SetSize("nontrivial"),
		"distinct_documents":  rep.SetSize("documents"),
		"rule": "one base document x location (family, root, container chain of depth <= " + map[bool]string{true: "2", false: "3"}[c.Quick()] +
			", slot) x name scheme x leaf schema x {default, example | examples} x {accepted, rejected} value, each validated next to the same document without the value; " +
			"a document is non-trivial when it carries a value its schema rejects (label confirmed by ref/draft4 or ref/simple); distinct = distinct canonical JSON texts",
		"groups":                      len(groups),
		"cases_judged":                judged,
		"locations":                   len(locations),
		"location_name_pairs":         len(locNames),
		"name_schemes":                len(c09nameSchemes),
		"per_location_class":          perLoc,
		"cases_failing_before_shrink": failing,
		"panicking_cases_skipped":     rep.Counters["panics"],
	}
	delete(rep.Sets, "nontrivial")
	delete(rep.Sets, "documents")
	return hx.Finish(c, "exploration", rep, cov, []string{
		"accept/reject labels are by construction and confirmed by ref/draft4 (Schema Objects, response examples) and ref/simple (parameters, headers, items)",
		"the outcome of a document is (sorted error messages, sorted warning messages) under map-order policy 0; a variant is compared with the same document without the value",
		"a required (path) parameter with a default legitimately gains the 'has a default value and is required' warning; it is discounted",
		"JSON null values, values next to a $ref, unresolvable references, examples on simple parameters (not allowed by the Swagger 2.0 schema) and media types other than application/json are outside the domain",
		"documents whose validation panics are C07's subject: skipped here and listed in the notes",
	})
}

func c09worker(c *hx.Ctx) int {
	rep := hx.NewReport()
	sets := hx.NewSetAdder()
	c09announce = true
	groups, _ := c09selected(c)
	n := len(groups)
	var all []c09res
	for i := 0; i < n; i++ {
		// the seed only rotates which shard a worker starts with
		gi := (i + c.Seed) % n
		if gi%c.Workers != c.Worker {
			continue
		}
		if c.Expired() {
			rep.Exhaustive = false
			break
		}
		res, herr := c09evalGroup(groups[gi], nil, rep, sets)
		if herr != "" {
			rep.HarnessErr = herr
			break
		}
		all = append(all, res...)
	}
	if rep.HarnessErr == "" {
		c09pairs(c, rep, sets)
	}
	for _, r := range all {
		line := r.Key + "\t" + r.Class
		if r.Class != "" {
			line += "\t" + strings.ReplaceAll(r.Detail, "\t", " ")
		}
		rep.Sets["results"] = append(rep.Sets["results"], line)
	}
	sets.Flush(rep)
	hx.EmitWorkerReport(rep)
	return 0
}

// c09shrinkWorker is the second round: every worker receives the complete table of round one (a cache:
// shrinking is a pure function of the case, unknown candidates are evaluated on demand) and shrinks
// its share of the failing cases.
func c09shrinkWorker(c *hx.Ctx, file string) int {
	rep := hx.NewReport()
	c09announce = true
	tab := &c09table{class: map[string]string{}, rep: rep}
	data, err := os.ReadFile(file)
	if err != nil {
		rep.HarnessErr = "shrink round: " + err.Error()
		hx.EmitWorkerReport(rep)
		return 0
	}
	var failing []string
	for _, line := range strings.Split(string(data), "\n") {
		f := strings.Split(line, "\t")
		if len(f) < 2 {
			continue
		}
		tab.class[f[0]] = f[1]
		if f[1] != "" && f[1] != "panic" {
			failing = append(failing, f[0])
		}
	}
	sort.Strings(failing)
	for i, k := range failing {
		// contiguous blocks of the sorted keys: similar cases share most of their candidates
		if i*c.Workers/len(failing) != c.Worker {
			continue
		}
		m := tab.shrink(c09parseKey(k), tab.class[k])
		rep.Sets["minima"] = append(rep.Sets["minima"], k+"\t"+m.key())
	}
	rep.Inc("shrink_validations", rep.Counters["validations"])
	hx.EmitWorkerReport(rep)
	return 0
}

// c09dump: debugging aid — `vcheck C09 quick --dump [substring]` prints the groups, and for those whose
// key contains the substring the documents and outcomes.
func c09dump(c *hx.Ctx) int {
	groups := c09groups(c.Quick())
	fmt.Println("groups:", len(groups))
	total := 0
	per := map[string]int64{}
	for _, g := range groups {
		total += len(c09variants(g))
		per[fmt.Sprintf("%s depth %d", g.Fam, len(g.Chain))] += int64(len(c09variants(g)))
	}
	fmt.Println("validations:", total)
	for _, k := range c09sortedKeys(per) {
		fmt.Println("  ", k, per[k])
	}
	fmt.Println("corpus documents: quick", len(c09Corpus(true)), "thorough", len(c09Corpus(false)))
	if len(c.Args) < 2 {
		return 0
	}
	if c.Args[1] == "corpus" {
		for _, d := range c09Corpus(c.Quick()) {
			out := c09run(d, true)
			fmt.Printf("%s\n  errors=%q warnings=%q panic=%q\n", d, out.Errors, out.Warnings, out.Panic)
		}
		return 0
	}
	rep := hx.NewReport()
	for _, g := range groups {
		if !strings.Contains(g.groupKey(), c.Args[1]) {
			continue
		}
		for _, v := range c09variants(g) {
			b := c09build(v)
			out := c09run(b.text(), g.Cont)
			fmt.Printf("%s\n  %s\n  slot=%v\n  errors=%q\n  warnings=%q panic=%q\n", v.key(), b.text(), b.SlotPath, out.Errors, out.Warnings, out.Panic)
		}
		res, herr := c09evalGroup(g, nil, rep, nil)
		fmt.Fprintln(os.Stdout, "  =>", res, herr)
	}
	return 0
}

// ------------------------------------------------------------------------------------------
// corpus for the other spec-level checks

func c09Corpus(quick bool) []string {
	var out []string
	seen := map[string]bool{}
	add := func(c c09Case) {
		if !c09validCase(c) {
			return
		}
		t := c09build(c).text()
		if !seen[t] {
			seen[t] = true
			out = append(out, t)
		}
	}
	add(c09Case{Fam: "schema", Root: "definition", Slot: 0, Names: "n", Leaf: "int", Kind: "default", Mode: "none", Cont: true})
	type loc struct {
		fam, root string
		chain     []string
	}
	var locs []loc
	for _, r := range c09schemaRoots[:4] {
		locs = append(locs, loc{"schema", r, nil})
	}
	for _, x := range []string{"properties", "items", "ref"} {
		locs = append(locs, loc{"schema", "definition", []string{x}})
	}
	locs = append(locs, loc{"simple", "query", nil}, loc{"simple", "query", []string{"items"}}, loc{"simple", "response-header", nil})
	locs = append(locs, loc{"examples", "response", nil})
	if !quick {
		for _, r := range c09schemaRoots[4:] {
			locs = append(locs, loc{"schema", r, nil})
		}
		for _, x := range []string{"additionalProperties", "allOf1", "tuple1"} {
			locs = append(locs, loc{"schema", "definition", []string{x}})
		}
		for _, r := range c09schemaRoots[1:4] {
			for _, x := range []string{"properties", "items", "ref"} {
				locs = append(locs, loc{"schema", r, []string{x}})
			}
		}
		locs = append(locs, loc{"simple", "response-header", []string{"items"}})
		for _, r := range []string{"header", "formData", "path", "pathitem-query", "shared-parameter", "default-response-header", "shared-response-header"} {
			locs = append(locs, loc{"simple", r, nil}, loc{"simple", r, []string{"items"}})
		}
		locs = append(locs, loc{"examples", "response-default", []string{"ref"}}, loc{"examples", "shared-response", []string{"properties"}})
	}
	limit := 40
	if !quick {
		limit = 150
	}
	for _, l := range locs {
		slot := len(l.chain)
		if l.fam == "examples" {
			slot = 0
		}
		for _, k := range c09kindsOf(l.fam) {
			for _, mode := range []string{"accept", "reject"} {
				if len(out) < limit {
					add(c09Case{Fam: l.fam, Root: l.root, Chain: l.chain, Slot: slot, Names: "n", Leaf: "int", Kind: k, Mode: mode, Cont: true})
				}
			}
		}
	}
	return out
}
