package checks

import (
	"encoding/json"
	"fmt"
	"sort"
	"strings"
)

// Structural-edit closure of small seed specifications (shared by C02 and C07).

const seedMinimal = `{"swagger":"2.0","info":{"title":"t","version":"1"},"paths":{"/a":{"get":{"operationId":"g","responses":{"200":{"description":"ok"}}}}}}`

const seedParams = `{"swagger":"2.0","info":{"title":"t","version":"1"},"consumes":["application/json"],"produces":["application/json"],
"parameters":{"lim":{"name":"limit","in":"query","type":"integer","format":"int32","maximum":100,"default":10},"hdr":{"name":"X-Trace","in":"header","type":"string"},"off":{"name":"offset","in":"query","type":"integer"},"pid":{"name":"pid","in":"path","required":true,"type":"string"},"srt":{"name":"sort","in":"query","type":"string","enum":["a","b"]},"frm":{"name":"upload","in":"formData","type":"file"}},
"paths":{"/p/{id}":{"parameters":[{"name":"id","in":"path","required":true,"type":"string","pattern":"^[a-z]+$"}],
 "post":{"operationId":"p","parameters":[{"$ref":"#/parameters/lim"},{"name":"h","in":"header","type":"array","items":{"type":"string","enum":["a","b"],"pattern":"^[ab]$"},"collectionFormat":"csv","default":["a"]},
   {"name":"body","in":"body","required":true,"schema":{"$ref":"#/definitions/Item"}}],
  "responses":{"200":{"description":"ok","schema":{"type":"array","items":{"$ref":"#/definitions/Item"}},"headers":{"X-Rate":{"type":"integer","default":1},"X-Tag":{"type":"array","items":{"type":"string","pattern":"^t"},"pattern":"^t"}},"examples":{"application/json":[{"name":"n"}]}},"default":{"$ref":"#/responses/err"}}},
 "put":{"operationId":"u","consumes":["multipart/form-data"],"parameters":[{"name":"f","in":"formData","type":"file"},{"name":"q","in":"formData","type":"string","minLength":1}],"responses":{"204":{"description":"done"}}}}},
"responses":{"err":{"description":"error","schema":{"$ref":"#/definitions/Err"}}},
"definitions":{"Item":{"type":"object","required":["name"],"properties":{"name":{"type":"string","example":"n"},"tags":{"type":"array","items":{"type":"string"}},"n":{"type":"integer","default":3}}},
 "Err":{"allOf":[{"$ref":"#/definitions/Base"},{"type":"object","properties":{"msg":{"type":"string"}}}]},"Base":{"type":"object","properties":{"code":{"type":"integer"}}},
 "Deep":{"allOf":[{"$ref":"#/definitions/Base"},{"allOf":[{"$ref":"#/definitions/Item"},{"type":"object","properties":{"z":{"type":"string"}}}]}]}}}`

const seedDefs = `{"swagger":"2.0","info":{"title":"t","version":"1"},"paths":{"/d":{"get":{"operationId":"d","responses":{"200":{"description":"ok","schema":{"$ref":"#/definitions/Pet"}}}}}},
"definitions":{"Pet":{"type":"object","discriminator":"kind","required":["kind","t"],"properties":{"kind":{"type":"string"},"t":{"type":"string","default":"x"},"owner":{"$ref":"#/definitions/Owner"}},"additionalProperties":{"type":"integer"}},
 "Dog":{"allOf":[{"$ref":"#/definitions/Pet"},{"type":"object","properties":{"bark":{"type":"boolean","default":true}}}]},
 "Owner":{"type":"object","properties":{"a.a":{"type":"string"},"pets":{"type":"array","items":{"$ref":"#/definitions/Pet"}}},"example":{"a.a":"x"}}}}`

// seedIDs: the "params" seed with the things that have free names called id and $schema (names the
// object validator special-cases): a definition, a model property, a shared parameter, a shared
// response, a response header. Edits are restricted to what lies below those names.
func seedIDs() string {
	s := strings.ReplaceAll(seedParams, "\n", "")
	r := strings.NewReplacer(
		`"#/definitions/Item"`, `"#/definitions/id"`, `"Item":{`, `"id":{`,
		`"#/definitions/Base"`, `"#/definitions/$schema"`, `"Base":{`, `"$schema":{`,
		`"required":["name"]`, `"required":["id"]`, `"name":{"type":"string","example":"n"}`, `"id":{"type":"string","example":"n"}`, `[{"name":"n"}]`, `[{"id":"n"}]`,
		`"#/parameters/lim"`, `"#/parameters/id"`, `"lim":{`, `"id":{`,
		`"#/responses/err"`, `"#/responses/$schema"`, `"err":{`, `"$schema":{`,
		`"X-Rate":{`, `"id":{`,
	)
	return r.Replace(s)
}

func underSpecialName(desc string) bool {
	return strings.Contains(desc, "/id/") || strings.Contains(desc, "/$schema/") || strings.Contains(desc, "/id ") || strings.Contains(desc, "/$schema ") ||
		strings.HasSuffix(desc, "/id") || strings.HasSuffix(desc, "/$schema")
}

func specSeeds(quick bool) map[string]string {
	m := map[string]string{"minimal": seedMinimal, "params": strings.ReplaceAll(seedParams, "\n", "")}
	m["ids"] = seedIDs()
	if !quick {
		m["defs"] = strings.ReplaceAll(seedDefs, "\n", "")
	}
	return m
}

type specEdit struct {
	Seed string
	Desc string
	Doc  string
}

func cloneJSON(v any) any {
	b, _ := json.Marshal(v)
	var o any
	json.Unmarshal(b, &o)
	return o
}

// setAt returns a copy of root with the node at path replaced (del: removed; rename != "": the last
// object key renamed).
func editAt(root any, path []any, f func(parent any, key any) bool) (any, bool) {
	c := cloneJSON(root)
	if len(path) == 0 {
		return c, false
	}
	cur := c
	for _, p := range path[:len(path)-1] {
		switch t := cur.(type) {
		case map[string]any:
			cur = t[p.(string)]
		case []any:
			cur = t[p.(int)]
		}
	}
	ok := f(cur, path[len(path)-1])
	return c, ok
}

type nodeRef struct {
	path []any
	val  any
}

func allNodes(v any, path []any, out *[]nodeRef) {
	*out = append(*out, nodeRef{append([]any(nil), path...), v})
	switch t := v.(type) {
	case map[string]any:
		ks := make([]string, 0, len(t))
		for k := range t {
			ks = append(ks, k)
		}
		sort.Strings(ks)
		for _, k := range ks {
			allNodes(t[k], append(path, k), out)
		}
	case []any:
		for i, x := range t {
			allNodes(x, append(path, i), out)
		}
	}
}

func pathText(p []any) string {
	var sb strings.Builder
	for _, s := range p {
		fmt.Fprintf(&sb, "/%v", s)
	}
	if sb.Len() == 0 {
		return "/"
	}
	return sb.String()
}

func kindOf(v any) string {
	switch v.(type) {
	case nil:
		return "null"
	case bool:
		return "bool"
	case float64:
		return "number"
	case string:
		return "string"
	case []any:
		return "array"
	case map[string]any:
		return "object"
	}
	return "?"
}

// singleEdits enumerates every single structural edit of a seed. extraNames adds the name edits
// aimed at the visited-path heuristic and reference edits (C07).
func singleEdits(seedName, seed string, extraNames bool) []specEdit {
	var root any
	json.Unmarshal([]byte(seed), &root)
	var nodes []nodeRef
	allNodes(root, nil, &nodes)
	var out []specEdit
	emit := func(desc string, doc any) {
		b, _ := json.Marshal(doc)
		out = append(out, specEdit{seedName, desc, string(b)})
	}
	replacements := []struct {
		name string
		val  any
	}{{"null", nil}, {"number", 1.0}, {"string", "s"}, {"array", []any{}}, {"object", map[string]any{}}, {"bool", true}}
	renames := []string{"x-foo", "id", "$schema", "a.a", ""}
	if extraNames {
		renames = append(renames, "a", "x.y.x.y", "default", "items", "example")
	}
	for _, n := range nodes {
		if len(n.path) == 0 {
			continue
		}
		p := n.path
		pt := pathText(p)
		// delete
		if d, ok := editAt(root, p, func(parent, key any) bool {
			switch t := parent.(type) {
			case map[string]any:
				delete(t, key.(string))
				return true
			case []any:
				return false // handled below (arrays need the grand-parent)
			}
			return false
		}); ok {
			emit("delete "+pt, d)
		}
		// retype
		for _, r := range replacements {
			if r.name == kindOf(n.val) && (r.name == "null" || r.name == "bool") {
				continue
			}
			if kindOf(n.val) == r.name && (r.name == "number" || r.name == "string") {
				continue
			}
			if d, ok := editAt(root, p, func(parent, key any) bool {
				switch t := parent.(type) {
				case map[string]any:
					t[key.(string)] = r.val
				case []any:
					t[key.(int)] = r.val
				}
				return true
			}); ok {
				emit("retype "+pt+" to "+r.name, d)
			}
		}
		// wrap in array
		if d, ok := editAt(root, p, func(parent, key any) bool {
			switch t := parent.(type) {
			case map[string]any:
				t[key.(string)] = []any{t[key.(string)]}
			case []any:
				t[key.(int)] = []any{t[key.(int)]}
			}
			return true
		}); ok {
			emit("wrap "+pt+" in an array", d)
		}
		// add a member that looks like a vendor extension but is not one (the pattern is ^x-, lower case)
		if _, isObj := n.val.(map[string]any); isObj {
			if d, ok := editAt(root, p, func(parent, key any) bool {
				var obj map[string]any
				switch t := parent.(type) {
				case map[string]any:
					obj, _ = t[key.(string)].(map[string]any)
				case []any:
					obj, _ = t[key.(int)].(map[string]any)
				}
				if obj == nil {
					return false
				}
				obj["X-Foo"] = 1.0
				return true
			}); ok {
				emit("add member X-Foo to "+pt, d)
			}
		}
		// rename key / transplant sibling
		if _, isKey := p[len(p)-1].(string); isKey {
			for _, nn := range renames {
				if nn == p[len(p)-1].(string) {
					continue
				}
				if d, ok := editAt(root, p, func(parent, key any) bool {
					t := parent.(map[string]any)
					if _, exists := t[nn]; exists {
						return false
					}
					t[nn] = t[key.(string)]
					delete(t, key.(string))
					return true
				}); ok {
					emit(fmt.Sprintf("rename %s to %q", pt, nn), d)
				}
			}
			if d, ok := editAt(root, p, func(parent, key any) bool {
				t := parent.(map[string]any)
				ks := make([]string, 0, len(t))
				for k := range t {
					ks = append(ks, k)
				}
				sort.Strings(ks)
				if len(ks) < 2 {
					return false
				}
				i := sort.SearchStrings(ks, key.(string))
				sib := ks[(i+1)%len(ks)]
				t[key.(string)] = cloneJSON(t[sib])
				return true
			}); ok {
				emit("transplant the next sibling onto "+pt, d)
			}
		}
		if extraNames {
			if _, isObj := n.val.(map[string]any); isObj {
				for _, ref := range []string{"#/definitions/Nope", "#/nowhere", "string"} {
					if ref == "string" {
						continue // a plain word is opened as a FILE relative to the working directory: excluded
					}
					if d, ok := editAt(root, p, func(parent, key any) bool {
						var o map[string]any
						switch t := parent.(type) {
						case map[string]any:
							o, _ = t[key.(string)].(map[string]any)
						case []any:
							o, _ = t[key.(int)].(map[string]any)
						}
						if o == nil {
							return false
						}
						if _, has := o["$ref"]; has {
							o["$ref"] = ref
						} else {
							o["$ref"] = ref // reference with siblings
						}
						return true
					}); ok {
						emit(fmt.Sprintf("add $ref %q to %s", ref, pt), d)
					}
				}
			}
			// an invalid regular expression wherever a pattern lives, and as a patternProperties key of
			// every schema object that declares properties
			if len(p) > 0 && p[len(p)-1] == "pattern" {
				if d, ok := editAt(root, p, func(parent, key any) bool { parent.(map[string]any)["pattern"] = "^(unclosed"; return true }); ok {
					emit("set "+pt+" to an invalid regular expression", d)
				}
			}
			if o, isObj := n.val.(map[string]any); isObj {
				if _, has := o["properties"]; has {
					for _, key := range []string{"^(unclosed", "^ok$"} {
						if d, ok := editAt(root, p, func(parent, k any) bool {
							var obj map[string]any
							switch t := parent.(type) {
							case map[string]any:
								obj, _ = t[k.(string)].(map[string]any)
							case []any:
								obj, _ = t[k.(int)].(map[string]any)
							}
							if obj == nil {
								return false
							}
							obj["patternProperties"] = map[string]any{key: map[string]any{"type": "string"}}
							if _, hasReq := obj["required"]; !hasReq {
								obj["required"] = []any{"zz"}
							}
							return true
						}); ok {
							emit(fmt.Sprintf("add patternProperties %q to %s", key, pt), d)
						}
					}
				}
			}
			// a body parameter that also carries a simple type; an array schema with additionalItems
			// (not Swagger, reached by the default/example walkers under continue-on-errors)
			if o, isObj := n.val.(map[string]any); isObj {
				if o["in"] == "body" {
					if d, ok := editAt(root, p, func(parent, k any) bool {
						var obj map[string]any
						switch t := parent.(type) {
						case map[string]any:
							obj, _ = t[k.(string)].(map[string]any)
						case []any:
							obj, _ = t[k.(int)].(map[string]any)
						}
						if obj == nil {
							return false
						}
						obj["type"] = "string"
						return true
					}); ok {
						emit("add type string to the body parameter "+pt, d)
					}
				}
				if _, has := o["items"]; has && o["type"] == "array" {
					if d, ok := editAt(root, p, func(parent, k any) bool {
						var obj map[string]any
						switch t := parent.(type) {
						case map[string]any:
							obj, _ = t[k.(string)].(map[string]any)
						case []any:
							obj, _ = t[k.(int)].(map[string]any)
						}
						if obj == nil {
							return false
						}
						obj["additionalItems"] = map[string]any{"type": "string", "default": 1.0, "example": 2.0, "pattern": "^(unclosed"}
						return true
					}); ok {
						emit("add additionalItems with a default to "+pt, d)
					}
				}
			}
			// re-target every reference between definitions to every definition: ancestries through
			// $ref'd and inline allOf members become circular, directly and through a second definition
			if ref, isStr := n.val.(string); isStr && len(p) > 1 && p[len(p)-1] == "$ref" && p[0] == "definitions" && strings.HasPrefix(ref, "#/definitions/") {
				if defs, ok := root.(map[string]any)["definitions"].(map[string]any); ok {
					names := make([]string, 0, len(defs))
					for k := range defs {
						names = append(names, k)
					}
					sort.Strings(names)
					for _, nm := range names {
						target := "#/definitions/" + nm
						if target == ref {
							continue
						}
						if d, ok := editAt(root, p, func(parent, key any) bool { parent.(map[string]any)["$ref"] = target; return true }); ok {
							emit(fmt.Sprintf("retarget %s to %s", pt, target), d)
						}
					}
				}
			}
			// an array parameter / header / items that carries a format and no items
			if o, isObj := n.val.(map[string]any); isObj && o["type"] == "array" {
				if _, has := o["items"]; has {
					if d, ok := editAt(root, p, func(parent, k any) bool {
						var obj map[string]any
						switch t := parent.(type) {
						case map[string]any:
							obj, _ = t[k.(string)].(map[string]any)
						case []any:
							obj, _ = t[k.(int)].(map[string]any)
						}
						if obj == nil {
							return false
						}
						delete(obj, "items")
						obj["format"] = "csvish"
						return true
					}); ok {
						emit("delete items and add a format at the array "+pt, d)
					}
				}
			}
			// rename a "name" value of parameters
			if s, isStr := n.val.(string); isStr && len(p) > 0 && p[len(p)-1] == "name" {
				for _, nn := range []string{"a.a", "", "x.y.x.y", "a"} {
					if nn == s {
						continue
					}
					if d, ok := editAt(root, p, func(parent, key any) bool {
						parent.(map[string]any)["name"] = nn
						return true
					}); ok {
						emit(fmt.Sprintf("set %s to %q", pt, nn), d)
					}
				}
			}
		}
	}
	// array element deletions
	for _, n := range nodes {
		if arr, ok := n.val.([]any); ok && len(arr) > 0 {
			for i := range arr {
				c := cloneJSON(root)
				cur := c
				var parent any
				var key any
				for _, p := range n.path {
					parent, key = cur, p
					switch t := cur.(type) {
					case map[string]any:
						cur = t[p.(string)]
					case []any:
						cur = t[p.(int)]
					}
				}
				a := cur.([]any)
				na := append(append([]any{}, a[:i]...), a[i+1:]...)
				switch t := parent.(type) {
				case map[string]any:
					t[key.(string)] = na
				case []any:
					t[key.(int)] = na
				}
				if parent != nil {
					emit(fmt.Sprintf("delete element %d of %s", i, pathText(n.path)), c)
				}
			}
		}
	}
	return out
}
