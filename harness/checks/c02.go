package checks

import (
	"regexp"
	"encoding/json"
	"fmt"
	"runtime/debug"
	"sort"
	"strings"
	"time"

	"github.com/go-openapi/loads"
	"github.com/go-openapi/spec"
	"github.com/go-openapi/strfmt"
	"github.com/go-openapi/validate"

	"verif/harness/hx"
	"verif/harness/ref/draft4"
	"verif/harness/ref/swagger20"
	"verif/harness/shrink"
)

// C02 — an accepted Swagger document always satisfies the Swagger 2.0 JSON schema.
// C07 — spec validation never panics on a document that loads.
//
// Both enumerate the structural-edit closure of small seed specifications (specedits.go).

func init() {
	Registry["C02"] = c02
	Registry["C07"] = c07
}

var swaggerRef map[string]any
var swaggerText string

func swaggerSchemaRef() (map[string]any, string) {
	if swaggerRef == nil {
		swaggerRef = swagger20.Schema()
		swaggerText = swagger20.Text()
	}
	return swaggerRef, swaggerText
}

// refSwaggerValid: is the raw document valid against the official Swagger 2.0 schema (reference)?
func refSwaggerValid(docText string) (valid bool, ok bool) {
	root, _ := swaggerSchemaRef()
	inst := parseInstanceNumber(docText)
	defer func() {
		if recover() != nil {
			ok = false
		}
	}()
	ev := &draft4.Evaluator{Root: root, Formats: strfmt.Default}
	return ev.Valid(root, inst), true
}

type specRun struct {
	loaded bool
	panic  string
	errs   []string
	warns  []string
	nilRes bool
}

// specOptsFor chooses the two public switches of the spec validator that must not influence the
// verdict direction examined here (SkipSchemataResult: no schemata recorded; StrictPathParamUniqueness:
// only about overlapping paths) for document number i in continue-mode cont: every document meets both
// values of SkipSchemataResult across its two modes, neighbouring edits alternate.
func specOptsFor(i int, cont bool) (skipSchemata, strictPaths bool) {
	return (i%2 == 0) != cont, (i/2)%2 == 0
}

func runSpec(docText string, cont bool) (r specRun) { return runSpecOpts(docText, cont, false, true) }

func runSpecOpts(docText string, cont, skipSchemata, strictPaths bool) (r specRun) {
	doc, err := loads.Analyzed(json.RawMessage(docText), "")
	if err != nil {
		return specRun{}
	}
	r.loaded = true
	defer func() {
		if x := recover(); x != nil {
			r.panic = panicText(x) + " at " + panicSite()
			resetPools()
		}
	}()
	sv := validate.NewSpecValidator(doc.Schema(), strfmt.Default)
	sv.SetContinueOnErrors(cont)
	sv.Options.SkipSchemataResult = skipSchemata
	sv.Options.StrictPathParamUniqueness = strictPaths
	e, w := sv.Validate(doc)
	if e == nil || w == nil {
		r.nilRes = true
		return r
	}
	r.errs = hx.SortedMsgs(e.Errors)
	r.warns = hx.SortedMsgs(w.Errors)
	return r
}

func specEditCorpus(quick bool, extraNames bool, depth2 bool) []specEdit {
	var out []specEdit
	seeds := specSeeds(quick)
	names := sortedKeysStr(seeds)
	for _, n := range names {
		out = append(out, specEdit{n, "unedited", seeds[n]})
		for _, e := range singleEdits(n, seeds[n], extraNames) {
			if n == "ids" {
				if !underSpecialName(e.Desc) || (quick && (strings.HasPrefix(e.Desc, "rename ") || strings.HasPrefix(e.Desc, "transplant ") || strings.HasPrefix(e.Desc, "wrap ") || strings.HasSuffix(e.Desc, " to array") || strings.HasSuffix(e.Desc, " to object") || strings.HasSuffix(e.Desc, " to bool"))) {
					continue // this seed is about what lies below the special names only
				}
			} else if quick && n != "minimal" && !quickEdit(e.Desc) {
				continue // quick tier: on the larger seeds only the edit kinds listed in quickEdit
			}
			out = append(out, e)
		}
	}
	if depth2 {
		first := singleEdits("minimal", seedMinimal, extraNames)
		for _, f := range first {
			for _, s := range singleEdits("minimal", f.Doc, false) {
				if strings.HasPrefix(s.Desc, "delete ") || strings.Contains(s.Desc, "to null") || strings.Contains(s.Desc, `to "id"`) || strings.Contains(s.Desc, "to object") {
					out = append(out, specEdit{"minimal", f.Desc + " ; " + s.Desc, s.Doc})
				}
			}
		}
	}
	// deduplicate by document text
	seen := map[string]bool{}
	var ded []specEdit
	for _, e := range out {
		if !seen[e.Doc] {
			seen[e.Doc] = true
			ded = append(ded, e)
		}
	}
	return ded
}

// quickEdit selects, for the larger seeds in the quick tier, deletions, null members, the renames
// that interact with special-cased keys, name edits and reference edits.
func quickEdit(desc string) bool {
	switch {
	case strings.HasPrefix(desc, "delete "), strings.HasSuffix(desc, " to null"), strings.HasPrefix(desc, "set "), strings.HasPrefix(desc, "add $ref \"#/definitions/Nope"), strings.HasPrefix(desc, "add patternProperties"):
		return true
	case strings.HasPrefix(desc, "rename ") && strings.Contains(desc, `/default to "example"`), strings.HasPrefix(desc, "add type string to the body"), strings.HasPrefix(desc, "add additionalItems"), strings.HasPrefix(desc, "retarget "), strings.HasPrefix(desc, "delete items and add a format"), strings.HasPrefix(desc, "add member X-Foo") && strings.Count(desc, "/") <= 5:
		return true
	case strings.HasPrefix(desc, "rename ") && (strings.HasSuffix(desc, `to "id"`) || strings.HasSuffix(desc, `to "a.a"`) || strings.HasSuffix(desc, `to ""`)):
		return true
	}
	return false
}

func sortedKeysStr(m map[string]string) []string {
	var ks []string
	for k := range m {
		ks = append(ks, k)
	}
	for i := range ks {
		for j := i + 1; j < len(ks); j++ {
			if ks[j] < ks[i] {
				ks[i], ks[j] = ks[j], ks[i]
			}
		}
	}
	return ks
}

func c02(c *hx.Ctx) int {
	if c.Worker >= 0 {
		return c02worker(c)
	}
	if c.Quick() {
		c.Budget = 420 * second
	} else {
		c.Budget = 1800 * second
	}
	// the reference must accept every seed
	for n, s := range specSeeds(false) {
		if v, ok := refSwaggerValid(s); !ok || !v {
			fmt.Printf("HARNESS-ERROR the reference rejects the seed specification %s\n", n)
			return 2
		}
	}
	rep := c.RunWorkers(16, 16)
	cov := map[string]any{
		"evaluations":         rep.Counters["validations"],
		"distinct_nontrivial": rep.Counters["ref_invalid_docs"],
		"documents":           rep.Counters["documents"],
		"loadable":            rep.Counters["loadable"],
		"rule":                "structural-edit closure of the seed specifications: every single edit (delete node, retype to null/number/string/array/object/bool, rename key to x-foo/id/$schema/a.a/\"\", transplant a sibling, wrap in array, delete array element) of 2 seeds (quick) / 3 seeds plus edit pairs on the minimal seed (thorough), each loadable document in both continue-on-errors modes; oracle: reference (official Swagger 2.0 schema, draft 4) says invalid => the library reports >= 1 error; non-trivial = loadable document the reference rejects; documents distinct by text",
	}
	return hx.Finish(c, "exploration", rep, cov, []string{
		"reference = ref/draft4 over verbatim copies of the Swagger 2.0 and draft-04 schemas shipped with go-openapi/spec v0.21.0 (remote references rewritten to local ones)",
		"only the direction 'schema-invalid => rejected' is demanded (the library adds rules of its own)",
	})
}

// c02prelude: some other part of the process has validated a document with its own, relaxed copy of
// the Swagger 2.0 schema (same declared id). Whatever the library remembers from that must not leak
// into validations against the official schema.
func c02prelude() {
	defer func() {
		if recover() != nil {
			resetPools()
		}
	}()
	custom := spec.MustLoadSwagger20Schema()
	if def, ok := custom.Definitions["schema"]; ok {
		def.Properties["nullable"] = *spec.BoolProperty()
		def.AdditionalProperties = &spec.SchemaOrBool{Allows: true} // the relaxed copy accepts any extra member in a schema object
		custom.Definitions["schema"] = def
	}
	if def, ok := custom.Definitions["pathParameterSubSchema"]; ok {
		def.Required = nil
		custom.Definitions["pathParameterSubSchema"] = def
	}
	for _, docText := range []string{specSeeds(false)["params"], specSeeds(false)["defs"]} {
		doc, err := loads.Analyzed(json.RawMessage(docText), "")
		if err != nil {
			continue
		}
		for _, cont := range []bool{false, true} {
			sv := validate.NewSpecValidator(custom, strfmt.Default)
			sv.SetContinueOnErrors(cont)
			sv.Validate(doc)
		}
	}
}

func c02worker(c *hx.Ctx) int {
	rep := hx.NewReport()
	c02prelude()
	corpus := specEditCorpus(c.Quick(), false, !c.Quick())
	// expensive documents (the ones that need a reduction) come in regular patterns of the edit order:
	// a fixed pseudo-random order spreads them evenly over the workers
	sort.SliceStable(corpus, func(a, b int) bool { return hx.Hash(corpus[a].Doc) < hx.Hash(corpus[b].Doc) })
	reported := map[string]bool{}
	for i, e := range corpus {
		if i%c.Workers != c.Worker {
			continue
		}
		if c.Expired() {
			rep.Exhaustive = false
			break
		}
		rep.Inc("documents", 1)
		hx.AnnounceCase(e.Seed + ": " + e.Desc)
		t0 := time.Now()
		valid, ok := refSwaggerValid(e.Doc)
		rep.Inc("t_reference_ms", time.Since(t0).Milliseconds())
		if !ok {
			rep.Inc("reference_cannot_judge", 1)
			continue
		}
		counted := false
		for _, cont := range []bool{false, true} {
			t1 := time.Now()
			skip, strict := specOptsFor(i, cont)
			r := runSpecOpts(e.Doc, cont, skip, strict)
			if !c.Quick() && r.loaded && r.panic == "" && !r.nilRes && !valid && len(r.errs) > 0 {
				// thorough: the other value of SkipSchemataResult too (reported through the same path)
				if r2 := runSpecOpts(e.Doc, cont, !skip, strict); r2.loaded && r2.panic == "" && !r2.nilRes && len(r2.errs) == 0 {
					r = r2
				}
			}
			rep.Inc("t_validate_ms", time.Since(t1).Milliseconds())
			if !r.loaded {
				break
			}
			if !counted {
				counted = true
				rep.Inc("loadable", 1)
				if !valid {
					rep.Inc("ref_invalid_docs", 1)
				}
			}
			rep.Inc("validations", 1)
			if r.panic != "" || r.nilRes {
				rep.Inc("panics_left_to_C07", 1)
				continue
			}
			if !valid && len(r.errs) == 0 {
				t2 := time.Now()
				sig, what := c02reduce(e, c.Expired)
				rep.Inc("t_reduce_ms", time.Since(t2).Milliseconds())
				if time.Since(t2) > 8*time.Second {
					rep.Notes = append(rep.Notes, fmt.Sprintf("slow reduction (%.0fs): %s: %s", time.Since(t2).Seconds(), e.Seed, e.Desc))
				}
				rep.Inc("accepted_although_invalid", 1)
				if sig == "" {
					// the budget ran out in the middle of the reduction: without its minimal cause the
					// document cannot be told from a known finding, so it is counted, not reported
					rep.Inc("accepted_although_invalid_not_reduced", 1)
					rep.Exhaustive = false
					break
				}
				if !reported[sig] {
					reported[sig] = true
					rep.AddViolation(hx.Violation{Signature: sig, What: what,
						Replay: map[string]any{"seed": e.Seed, "edit": e.Desc, "document": e.Doc, "continue": cont}})
				}
				break
			}
		}
		if len(rep.Samples) < 2 && !valid {
			rep.Samples = append(rep.Samples, map[string]any{"seed": e.Seed, "edit": e.Desc})
		}
	}
	hx.EmitWorkerReport(rep)
	return 0
}

// c02reduce turns "accepted although schema-invalid" into a C01-style minimal (schema, instance)
// pair: the pair (Swagger 2.0 schema, raw document) is shrunk under the predicate "reference rejects,
// one-shot schema validation with the Swagger options accepts".
type c02abort struct{}

// c02reduced memoises, per worker process, the outcome of reducing one (flattened failing sub-schema,
// sub-instance) candidate: many edited documents fail at the same leaf. The reduction is a
// deterministic function of the candidate, so the memo changes nothing but the time.
var c02reduced = map[string][2]string{}

func c02reduce(e specEdit, stop func() bool) (sig, what string) {
	defer func() {
		if r := recover(); r != nil {
			if _, ok := r.(c02abort); !ok {
				panic(r)
			}
			sig, what = "", ""
		}
	}()
	root, _ := swaggerSchemaRef()
	pred := func(s map[string]any, i any) bool {
		if stop() {
			panic(c02abort{})
		}
		st, it := shrink.Text(s), shrink.Text(i)
		want, ok := refVerdictNumber(st, it)
		if !ok || want {
			return false
		}
		o := againstSchema(st, parseInstance(it), strfmt.Default, validate.SwaggerSchema(true))
		return o.Panic == "" && o.Valid
	}
	inst := parseInstanceNumber(e.Doc)
	var fails []draft4.Fail
	ev := &draft4.Evaluator{Root: root, Formats: strfmt.Default, Fails: &fails}
	func() {
		defer func() { recover() }()
		ev.Valid(root, inst)
	}()
	// deepest failing (sub-schema, sub-instance) first
	sort.SliceStable(fails, func(a, b int) bool { return strings.Count(fails[a].Loc, "\x00") > strings.Count(fails[b].Loc, "\x00") })
	subOf := func(f draft4.Fail) any {
		loc := f.Loc
		if f.Kw == "additionalProperties" {
			if i := strings.LastIndex(loc, "\x00"); i >= 0 {
				loc = loc[:i]
			}
		}
		return at(inst, loc)
	}
	finish := func(cand map[string]any, sub any) (string, string) {
		ms, mi := shrink.Pair(cand, sub, pred, 600)
		st, it := shrink.Text(ms), shrink.Text(mi)
		return st + " ⊢ " + it, fmt.Sprintf("seed %s, edit %q is accepted although it violates the Swagger 2.0 schema; minimal cause: schema %s accepts %s", e.Seed, e.Desc, st, it)
	}
	// pass 1: reference-free candidates (bounded inlining, leftover references accept everything):
	// cheap to test and to shrink
	tried := map[string]bool{}
	for _, d := range []int{1, 2} {
		for _, f := range fails {
			if f.Schema == nil {
				continue
			}
			sub := subOf(f)
			flat := shrink.Flatten(root, f.Schema, d)
			key := shrink.Text(flat) + "|" + shrink.Text(sub)
			if tried[key] || len(key) > 30000 {
				continue
			}
			tried[key] = true
			if hit, ok := c02reduced[key]; ok {
				if hit[0] == "" {
					continue
				}
				return hit[0] + " ⊢ " + hit[1], fmt.Sprintf("seed %s, edit %q is accepted although it violates the Swagger 2.0 schema; minimal cause: schema %s accepts %s", e.Seed, e.Desc, hit[0], hit[1])
			}
			if f.Kw == "additionalProperties" {
				// the offending member is known: start from the object that holds only that member with
				// the simplest value (what the shrinker would arrive at after many expensive steps on a
				// large sub-tree)
				if i := strings.LastIndex(f.Loc, "\x00"); i >= 0 {
					small := map[string]any{f.Loc[i+1:]: 0.0}
					if full, ok := sub.(map[string]any); ok {
						// ... plus the members the schema requires, as they are
						if req, ok := flat["required"].([]any); ok {
							for _, r := range req {
								if name, ok := r.(string); ok {
									if v, has := full[name]; has {
										small[name] = v
									}
								}
							}
						}
					}
					if pred(flat, small) {
						sg, wh := finish(flat, small)
						if j := strings.Index(sg, " ⊢ "); j > 0 {
							c02reduced[key] = [2]string{sg[:j], sg[j+len(" ⊢ "):]}
						}
						return sg, wh
					}
				}
			}
			if pred(flat, sub) {
				sg, wh := finish(flat, sub)
				if i := strings.Index(sg, " ⊢ "); i > 0 {
					c02reduced[key] = [2]string{sg[:i], sg[i+len(" ⊢ "):]}
				}
				return sg, wh
			}
			c02reduced[key] = [2]string{"", ""}
		}
	}
	// pass 2: the failing sub-schemas with the full definitions
	for _, f := range fails {
		if f.Schema == nil {
			continue
		}
		sub := subOf(f)
		cand := shrink.Parse(shrink.Text(f.Schema)).(map[string]any)
		if !strings.Contains(shrink.Text(cand), `"$ref"`) {
			continue // already tried in pass 1
		}
		cand["definitions"] = root["definitions"]
		key := "big|" + shrink.Text(f.Schema) + "|" + shrink.Text(sub)
		if tried[key] {
			continue
		}
		tried[key] = true
		if pred(cand, sub) {
			return finish(cand, sub)
		}
	}
	return "document accepted although schema-invalid (no failing sub-schema reproduces it at schema level): " + e.Seed + ": " + e.Desc,
		fmt.Sprintf("seed %s, edit %q: the document violates the Swagger 2.0 schema but spec validation reports no error", e.Seed, e.Desc)
}

func refVerdictNumber(schemaText, instText string) (valid bool, ok bool) {
	root, err := draft4.ParseSchema(schemaText)
	if err != nil {
		return false, false
	}
	defer func() {
		if recover() != nil {
			ok = false
		}
	}()
	ev := &draft4.Evaluator{Root: root, Formats: strfmt.Default}
	return ev.Valid(root, parseInstanceNumber(instText)), true
}

// ---- C07 -----------------------------------------------------------------------------------

func c07(c *hx.Ctx) int {
	if len(c.Args) == 2 && c.Args[0] == "--doc" {
		// debugging aid: print the document of one edit ("seed: description")
		for _, e := range specEditCorpus(false, true, false) {
			if e.Seed+": "+e.Desc == c.Args[1] {
				fmt.Println(e.Doc)
			}
		}
		return 0
	}
	if c.Worker >= 0 {
		return c07worker(c)
	}
	if c.Quick() {
		c.Budget = 420 * second
	} else {
		c.Budget = 1800 * second
	}
	hx.CrashHandler = func(c *hx.Ctx, wc hx.WorkerCrash) *hx.Report {
		r := hx.NewReport()
		first := wc.Output
		if i := strings.Index(first, "\n"); i > 0 {
			first = first[:i]
		}
		r.AddViolation(hx.Violation{Signature: "process died: " + wc.LastCase, What: "validating the document '" + wc.LastCase + "' killed or stalled the process: " + first,
			Replay: map[string]any{"case": wc.LastCase, "stderr_head": wc.Output, "exit": wc.Exit}})
		return r
	}
	rep := c.RunWorkers(16, 16)
	cov := map[string]any{
		"evaluations":         rep.Counters["validations"],
		"distinct_nontrivial": rep.Counters["loadable_edited"],
		"documents":           rep.Counters["documents"],
		"rule":                "the C02 edit closure plus name edits aimed at the visited-path heuristic (member/parameter names a.a, a, \"\", x.y.x.y, default, items, example), $ref to nowhere and $ref with siblings added to every object node; each loadable document in both continue-on-errors modes; oracle: Validate returns two non-nil results, no panic, no fatal error; non-trivial = loadable edited document; distinct by text",
	}
	return hx.Finish(c, "exploration", rep, cov, []string{
		"references whose value is a plain word or a URL are excluded (they are opened as files relative to the working directory / over the network)",
		"workers run in an empty working directory; a dead or stalled worker is attributed to the announced document",
	})
}

// panicSite names the innermost function of the library on the stack of the panic being recovered.
func panicSite() string {
	st := string(debug.Stack())
	lines := strings.Split(st, "\n")
	seenPanic := false
	site := ""
	for _, l := range lines {
		if strings.HasPrefix(l, "panic(") {
			seenPanic = true
			continue
		}
		if seenPanic && strings.HasPrefix(l, "github.com/go-openapi/validate.") && !strings.Contains(l, "/verifrt") {
			f := strings.TrimPrefix(l, "github.com/go-openapi/validate.")
			if i := strings.LastIndex(f, "("); i > 0 {
				f = f[:i]
			}
			if site == "" {
				site = f
				if f != "newSchemaValidator" {
					return site
				}
				continue
			}
			if f != site && !strings.HasSuffix(site, f) {
				// the constructor is reached from many places: its caller is the call site
				return site + " called from " + f
			}
		}
	}
	if site != "" {
		return site
	}
	return "?"
}

var c07quoted = regexp.MustCompile(`"[^"]*"`)

// c07class abstracts a panic text + top frame into a root-cause class.
func c07class(p string) string {
	p = strings.TrimSpace(p)
	site := ""
	if i := strings.LastIndex(p, " at "); i > 0 {
		site = p[i:]
		p = p[:i]
	}
	if i := strings.Index(p, "Invalid schema provided to SchemaValidator"); i >= 0 {
		// the rest names the unresolvable reference: keep the kind of failure, drop the names
		rest := c07quoted.ReplaceAllString(p[i+len("Invalid schema provided to SchemaValidator"):], `"…"`)
		rest = strings.NewReplacer("object has no key", "object has no member", "object has no field", "object has no member").Replace(rest)
		for _, cut := range []string{"open /", ": open "} {
			if j := strings.Index(rest, cut); j >= 0 {
				rest = rest[:j] + " (file reference)"
			}
		}
		p = p[:i+len("Invalid schema provided to SchemaValidator")] + rest
	}
	for _, cut := range []string{" 0x", "[recovered]", "open /", ": open "} {
		if i := strings.Index(p, cut); i > 0 {
			p = p[:i]
		}
	}
	if len(p) > 100 {
		p = p[:100]
	}
	return p + site
}

func c07worker(c *hx.Ctx) int {
	rep := hx.NewReport()
	corpus := specEditCorpus(c.Quick(), true, !c.Quick())
	type found struct {
		e    specEdit
		cont bool
		msg  string
	}
	byClass := map[string]found{}
	for i, e := range corpus {
		if i%c.Workers != c.Worker {
			continue
		}
		if c.Expired() {
			rep.Exhaustive = false
			break
		}
		rep.Inc("documents", 1)
		hx.AnnounceCase(e.Seed + ": " + e.Desc)
		counted := false
		for _, cont := range []bool{false, true} {
			skip, strict := specOptsFor(i, cont)
			r := runSpecOpts(e.Doc, cont, skip, strict)
			if !r.loaded {
				break
			}
			if !counted && e.Desc != "unedited" {
				counted = true
				rep.Inc("loadable_edited", 1)
			}
			rep.Inc("validations", 1)
			msg := ""
			if r.panic != "" {
				msg = "panic: " + r.panic
			} else if r.nilRes {
				msg = "nil result returned"
			}
			if msg == "" {
				continue
			}
			cl := c07class(msg)
			if strings.Contains(cl, "Invalid schema provided") {
				// reached in different ways with and without continue-on-errors: two root causes
				cl += fmt.Sprintf(" (continue-on-errors=%v)", cont)
			}
			// keep the smallest document of each class (deterministic: shortest text, then lexical)
			if old, ok := byClass[cl]; !ok || len(e.Doc) < len(old.e.Doc) || (len(e.Doc) == len(old.e.Doc) && e.Doc < old.e.Doc) {
				byClass[cl] = found{e, cont, msg}
			}
		}
		if len(rep.Samples) < 2 {
			rep.Samples = append(rep.Samples, map[string]any{"seed": e.Seed, "edit": e.Desc})
		}
	}
	for cl, f := range byClass {
		rep.AddViolation(hx.Violation{Signature: "spec validation panics: " + cl,
			What:   fmt.Sprintf("seed %s, edit %q (continue-on-errors=%v): %s", f.e.Seed, f.e.Desc, f.cont, f.msg),
			Replay: map[string]any{"seed": f.e.Seed, "edit": f.e.Desc, "document": f.e.Doc, "continue": f.cont, "class": cl}})
	}
	hx.EmitWorkerReport(rep)
	return 0
}
