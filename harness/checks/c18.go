package checks

import (
	"encoding/json"
	"fmt"
	"sort"
	"strings"

	"github.com/go-openapi/strfmt"
	"github.com/go-openapi/validate"
	"github.com/go-openapi/validate/post"
	"github.com/go-openapi/validate/verifrt"

	"verif/harness/gen"
	"verif/harness/hx"
	"verif/harness/ref/draft4"
	"verif/harness/shrink"
)

// C18 — ApplyDefaults fills exactly the absent members that have a default.
// C19 — Prune removes exactly the members no schema describes.
//
// Both enumerate object schemas built from templates (properties, patternProperties,
// additionalProperties, items, tuple items, allOf/anyOf/oneOf, dependencies, $ref, not) merged up to
// size 2 (quick) / 3 (thorough), and for each schema all instances obtained from "universe" instances
// by keeping every subset of members (at each object level); only instances the reference judges
// valid are used. The oracle is the applicable-schema relation of the reference evaluator.

func init() {
	Registry["C18"] = func(c *hx.Ctx) int { return postCheck(c, "C18") }
	Registry["C19"] = func(c *hx.Ctx) int { return postCheck(c, "C19") }
}

// S1: object with defaults
const pcObj = `{"type":"object","properties":{"a":{"type":"integer","default":1},"b":{"type":"string"},"d":{"type":"boolean","default":false}}}`

var pcTemplates = []string{
	`{"properties":{"a":{"type":"integer","default":1},"b":{"type":"string"}}}`,
	`{"properties":{"a":{"type":"integer","default":1}},"required":["a"]}`,
	`{"properties":{"c":{"type":"object","properties":{"x":{"default":"dx"},"y":{"type":"integer"}}}}}`,
	`{"properties":{"c":{"type":"object","default":{"x":"q"},"properties":{"x":{"default":"dx"},"c":{"type":"object","properties":{"z":{"default":[1]}}}}}}}`,
	`{"allOf":[{"properties":{"a":{"default":1}}},{"properties":{"b":{"default":2},"e":{"type":"integer"}}}]}`,
	`{"allOf":[{"properties":{"a":{"default":1}}},{"properties":{"a":{"default":2}}}]}`,
	`{"anyOf":[{"required":["k"],"properties":{"a":{"default":1},"k":{"type":"integer"}}},{"properties":{"b":{"default":2},"k":{"type":"string"}}}]}`,
	`{"oneOf":[{"properties":{"k":{"enum":["x"]},"a":{"default":1}},"required":["k"]},{"properties":{"k":{"enum":["y"]},"b":{"default":2}},"required":["k"]}]}`,
	`{"properties":{"l":{"type":"array","items":` + pcObj + `}}}`,
	`{"properties":{"t":{"type":"array","items":[` + pcObj + `,{"type":"integer"}],"additionalItems":{"type":"object","properties":{"x":{"default":"dx"}}}}}}`,
	`{"additionalProperties":{"type":"object","properties":{"x":{"default":"dx"},"y":{"type":"integer"}}}}`,
	`{"patternProperties":{"^o":` + pcObj + `}}`,
	`{"properties":{"r":{"$ref":"#/definitions/withdef"}},"definitions":{"withdef":{"type":"object","properties":{"x":{"default":"dx"}}},"leafdef":{"type":"integer","default":7}}}`,
	`{"dependencies":{"k":{"properties":{"a":{"default":1}}}}}`,
	`{"not":{"properties":{"a":{"default":1}},"required":["zzz"]}}`,
	`{"properties":{"b":{"type":"string"},"e":{"type":"integer"}},"additionalProperties":true}`,
	`{"properties":{"b":{"type":"string"}},"patternProperties":{"^x":{"type":"integer"}},"additionalProperties":{"type":"boolean"}}`,
	`{"properties":{"n":{"properties":{"n":{"properties":{"n":{"default":3},"m":{"type":"integer"}}},"m":{"type":"integer","default":2}}}}}`,
	`{"anyOf":[{"properties":{"a":{"default":1}}},{"properties":{"a":{"default":2},"b":{"type":"string"}}}]}`,
	`{"type":"array","items":{"anyOf":[{"type":"integer"},` + pcObj + `]}}`,
	`{"properties":{"q":{"$ref":"#/definitions/leafdef2"},"b":{"type":"string"}},"definitions":{"leafdef2":{"type":"integer","default":7}}}`,
	// a closed object (additionalProperties:false) whose members come through pattern properties
	`{"properties":{"b":{"type":"string"}},"patternProperties":{"^x":{"type":"integer"},"^o":` + pcObj + `},"additionalProperties":false}`,
	`{"properties":{"l":{"type":"array","items":{"patternProperties":{"^[ab]$":{}},"additionalProperties":false}}}}`,
	// unusual member names (empty, dotted) and arrays nested directly in arrays
	`{"properties":{"":{"type":"integer","default":9},"a.b":{"default":1},"b":{"type":"string"},"c":{"properties":{"":{"default":"e"},"x":{"default":"dx"}}}}}`,
	`{"properties":{"m":{"type":"array","items":{"type":"array","items":` + pcObj + `}}}}`,
	`{"type":"array","items":{"type":"array","items":{"type":"array","items":` + pcObj + `}}}`,
	// members whose schema accepts null: a present null is a present value
	`{"properties":{"a":{"default":5},"nn":{"type":["null","string"],"default":"x"},"c":{"properties":{"x":{"default":"dx"}}}},"patternProperties":{"^p_":{}}}`,
	`{"allOf":[{"properties":{"nn":{"default":1}}},{"properties":{"a":{"default":2}}}],"additionalProperties":{"type":["null","object"],"properties":{"x":{"default":"dx"}}}}`,
}

// universe instances (members are dropped in all combinations)
var pcUniverses = []string{
	`{"a":5,"b":"s","d":true,"e":3,"k":1,"zz":1}`,
	`{"k":"x","c":{"x":"vx","y":1,"c":{"z":[0],"w":1},"u":1},"l":[{"a":1,"q":1},{"b":"s"}],"o1":{"a":2,"zz":0}}`,
	`{"k":"y","t":[{"b":"s"},3,{"x":"v","q":1},{"q":2}],"r":{"x":"v","extra":1},"x1":3,"o":{},"n":{"n":{"n":4,"m":1,"p":0},"m":1}}`,
	`{"k":1,"q":{"x":"v","y":2,"z":0},"p":{},"b":"s","ok":true}`,
	`[1,{"a":1,"zz":2},{"b":"s","d":true},{}]`,
	`{"":1,"a.b":2,"b":"s","c":{"":"v","z":1},"m":[[{"a":1,"q":1},{"b":"s","zz":0}],[],[{"d":true,"u":{}}]],"zz":1}`,
	`[[[{"a":1,"zz":2}],[{}]],[[{"b":"s","q":0}],[]]]`,
	`{"a":null,"nn":null,"b":"s","p_1":null,"p_2":"kept","c":{"x":null,"y":1},"o1":null,"zz":null,"l":[{"a":null},{"q":null}]}`,
}

// pcSubsets returns all instances obtained by keeping subsets of object members, top level fully
// (2^n) and nested objects either complete or with one member removed / emptied, capped.
func pcSubsets(text string, cap int) []string {
	var v any
	json.Unmarshal([]byte(text), &v)
	seen := map[string]bool{}
	var out []string
	add := func(x any) {
		b, _ := json.Marshal(x)
		if !seen[string(b)] && len(out) < cap {
			seen[string(b)] = true
			out = append(out, string(b))
		}
	}
	var nestedVariants func(x any) []any
	nestedVariants = func(x any) []any {
		switch t := x.(type) {
		case map[string]any:
			vs := []any{t, map[string]any{}}
			ks := sortedKeysAny(t)
			for _, k := range ks {
				c := map[string]any{}
				for _, k2 := range ks {
					if k2 != k {
						c[k2] = t[k2]
					}
				}
				vs = append(vs, c)
			}
			for _, k := range ks {
				for _, nv := range nestedVariants(t[k])[1:] {
					c := map[string]any{}
					for _, k2 := range ks {
						c[k2] = t[k2]
					}
					c[k] = nv
					vs = append(vs, c)
				}
			}
			return vs
		case []any:
			vs := []any{t}
			for i := range t {
				for _, nv := range nestedVariants(t[i])[1:] {
					c := append([]any{}, t...)
					c[i] = nv
					vs = append(vs, c)
				}
			}
			if len(t) > 0 {
				vs = append(vs, t[:len(t)-1], []any{})
			}
			return vs
		}
		return []any{x}
	}
	switch t := v.(type) {
	case map[string]any:
		ks := sortedKeysAny(t)
		n := len(ks)
		for mask := (1 << n) - 1; mask >= 0; mask-- {
			c := map[string]any{}
			for i, k := range ks {
				if mask&(1<<i) != 0 {
					c[k] = t[k]
				}
			}
			add(c)
		}
		for _, nv := range nestedVariants(t) {
			add(nv)
		}
	default:
		for _, nv := range nestedVariants(v) {
			add(nv)
		}
	}
	return out
}

func sortedKeysAny(m map[string]any) []string {
	ks := make([]string, 0, len(m))
	for k := range m {
		ks = append(ks, k)
	}
	sort.Strings(ks)
	return ks
}

func pcSchemas(quick bool) []string {
	var out []string
	seen := map[string]bool{}
	add := func(s string) {
		if s != "" && !seen[s] {
			seen[s] = true
			out = append(out, s)
		}
	}
	n := len(pcTemplates)
	for i := 0; i < n; i++ {
		add(pcMerge(pcTemplates[i]))
	}
	for i := 0; i < n; i++ {
		for j := i + 1; j < n; j++ {
			add(pcMerge(pcTemplates[i], pcTemplates[j]))
		}
	}
	if !quick {
		for i := 0; i < n; i++ {
			for j := i + 1; j < n; j++ {
				for k := j + 1; k < n; k++ {
					add(pcMerge(pcTemplates[i], pcTemplates[j], pcTemplates[k]))
				}
			}
		}
	}
	return out
}

// pcMerge: conjunction of templates; when keywords collide the templates are combined with allOf
// instead (still a conjunction).
func pcMerge(ts ...string) string {
	if s := gen.Merge(ts...); s != "" {
		return s
	}
	// pull definitions up, wrap the rest in allOf
	var parts []string
	defs := ""
	for _, t := range ts {
		var m map[string]json.RawMessage
		json.Unmarshal([]byte(t), &m)
		if d, ok := m["definitions"]; ok {
			defs = string(d)
			delete(m, "definitions")
		}
		b, _ := json.Marshal(m)
		parts = append(parts, string(b))
	}
	s := `{"allOf":[` + strings.Join(parts, ",") + `]`
	if defs != "" {
		s += `,"definitions":` + defs
	}
	return s + `}`
}

// pcRecycle switches the validators to the recycling option (results are not pooled on this path).
var pcRecycle bool
var pcPooledResults bool

type pcCase struct {
	schema string
	inst   string
}

// at navigates a JSON value by location.
func at(v any, loc string) any {
	if loc == "" {
		return v
	}
	for _, seg := range strings.Split(loc[1:], "\x00") {
		switch t := v.(type) {
		case map[string]any:
			v = t[seg]
		case []any:
			i := 0
			fmt.Sscanf(seg, "%d", &i)
			if i >= len(t) {
				return nil
			}
			v = t[i]
		default:
			return nil
		}
	}
	return v
}

func showLoc(loc string) string {
	if loc == "" {
		return "(root)"
	}
	return strings.ReplaceAll(loc[1:], "\x00", ".")
}

// c18judge compares data before/after ApplyDefaults with the reference relation. "" = fine.
func c18judge(root map[string]any, before, after any) string {
	ev := &draft4.Evaluator{Root: root, Formats: strfmt.Default}
	app := ev.Applicable(root, before)
	// every object location of `before`
	var locs []string
	for l := range app {
		locs = append(locs, l)
	}
	sort.Strings(locs)
	checked := map[string]bool{}
	for _, loc := range locs {
		bo, ok := at(before, loc).(map[string]any)
		if !ok {
			continue
		}
		ao, ok := at(after, loc).(map[string]any)
		if !ok {
			return fmt.Sprintf("object at %s is no longer an object", showLoc(loc))
		}
		checked[loc] = true
		must := map[string][]any{} // member -> defaults declared by surely applicable schemas
		may := map[string][]any{}
		collect := func(schemas []map[string]any, into map[string][]any) {
			for _, s := range schemas {
				props, _ := s["properties"].(map[string]any)
				for k, ps := range props {
					pm, ok := ps.(map[string]any)
					if !ok {
						continue
					}
					if r, isRef := pm["$ref"].(string); isRef {
						if t, err := ev.Resolve(r); err == nil {
							pm, _ = t.(map[string]any)
						}
					}
					if d, has := pm["default"]; has && d != nil {
						into[k] = append(into[k], d)
					}
				}
			}
		}
		collect(app[loc].Must, must)
		collect(app[loc].May, may)
		for k, v := range bo {
			av, present := ao[k]
			if !present {
				return fmt.Sprintf("member %s.%s disappeared", showLoc(loc), k)
			}
			if _, isContainer := v.(map[string]any); isContainer {
				continue // compared at its own location
			}
			if _, isArr := v.([]any); isArr {
				continue
			}
			if !draft4.Equal(v, av) {
				return fmt.Sprintf("present member %s.%s changed from %s to %s", showLoc(loc), k, hx.JSON(v), hx.JSON(av))
			}
		}
		for k, av := range ao {
			if _, was := bo[k]; was {
				continue
			}
			allowed := append(append([]any{}, must[k]...), may[k]...)
			okv := false
			for _, d := range allowed {
				if draft4.Equal(d, av) {
					okv = true
				}
			}
			if !okv {
				return fmt.Sprintf("member %s.%s appeared with %s although no applicable schema declares that default (declared: %s)", showLoc(loc), k, hx.JSON(av), hx.JSON(allowed))
			}
		}
		for k, ds := range must {
			if _, was := bo[k]; was {
				continue
			}
			if _, now := ao[k]; !now {
				return fmt.Sprintf("absent member %s.%s has an applicable default %s but was not filled", showLoc(loc), k, hx.JSON(ds))
			}
		}
	}
	return ""
}

// c19judge compares data before/after Prune. "" = fine.
func c19judge(root map[string]any, before, after any) string {
	ev := &draft4.Evaluator{Root: root, Formats: strfmt.Default}
	app := ev.Applicable(root, before)
	var walk func(b, a any, loc string) string
	walk = func(b, a any, loc string) string {
		switch bo := b.(type) {
		case map[string]any:
			ao, ok := a.(map[string]any)
			if !ok {
				return fmt.Sprintf("object at %s is no longer an object", showLoc(loc))
			}
			ap := app[loc]
			if ap == nil {
				ap = &draft4.Applic{}
			}
			for k, bv := range bo {
				must, may := false, false
				for _, s := range ap.Must {
					if draft4.Describes(s, k) {
						must = true
					}
				}
				for _, s := range ap.May {
					if draft4.Describes(s, k) {
						may = true
					}
				}
				av, remains := ao[k]
				if must && !remains {
					return fmt.Sprintf("member %s.%s is described by an applicable schema but was removed", showLoc(loc), k)
				}
				if !must && !may && remains {
					return fmt.Sprintf("member %s.%s is described by no applicable schema but remains", showLoc(loc), k)
				}
				if remains {
					if d := walk(bv, av, draft4.Join(loc, k)); d != "" {
						return d
					}
				}
			}
			for k := range ao {
				if _, was := bo[k]; !was {
					return fmt.Sprintf("member %s.%s appeared", showLoc(loc), k)
				}
			}
		case []any:
			aa, ok := a.([]any)
			if !ok || len(aa) != len(bo) {
				return fmt.Sprintf("array at %s changed shape", showLoc(loc))
			}
			for i := range bo {
				if d := walk(bo[i], aa[i], draft4.Join(loc, fmt.Sprint(i))); d != "" {
					return d
				}
			}
		default:
			if !draft4.Equal(b, a) {
				return fmt.Sprintf("value at %s changed from %s to %s", showLoc(loc), hx.JSON(b), hx.JSON(a))
			}
		}
		return ""
	}
	return walk(before, after, "")
}

func pcHasAlternatives(schema string) bool {
	return strings.Contains(schema, `"anyOf"`) || strings.Contains(schema, `"oneOf"`)
}

// pcRun executes validate + post-processing on a fresh copy and returns (before, after, valid, panic).
func pcRun(prop, schema, inst string) (before, after any, valid bool, pan string) {
	sch, err := parseSpecSchema(schema)
	if err != nil {
		return nil, nil, false, "schema does not decode"
	}
	before = parseInstance(inst)
	data := parseInstance(inst)
	defer func() {
		if r := recover(); r != nil {
			pan = panicText(r)
			resetPools()
		}
	}()
	var opts []validate.Option
	if pcRecycle {
		opts = append(opts, validate.WithRecycleValidators(true))
	}
	if pcPooledResults {
		// the mode the one-shot entry point runs in: validators and results both come from the pools
		opts = append(opts, validate.WithRecycleValidators(true), validate.VerifWithRecycleResults())
	}
	res := validate.NewSchemaValidator(sch, nil, "", strfmt.Default, opts...).Validate(data)
	if !res.IsValid() {
		return before, data, false, ""
	}
	if prop == "C18" {
		post.ApplyDefaults(res)
	} else {
		post.Prune(res)
	}
	return before, data, true, ""
}

func postCheck(c *hx.Ctx, prop string) int {
	if c.Worker >= 0 {
		return postWorker(c, prop)
	}
	if c.Quick() {
		c.Budget = 150 * second
	} else {
		c.Budget = 1200 * second
	}
	rep := c.RunWorkers(16, 16)
	what := "defaults applied"
	if prop == "C19" {
		what = "members pruned"
	}
	cov := map[string]any{
		"evaluations":         rep.Counters["cases"],
		"distinct_nontrivial": rep.Counters["nontrivial"],
		"schemas":             rep.Counters["schemas"],
		"invalid_skipped":     rep.Counters["invalid_skipped"],
		"rule":                "all conjunctions of <= 2 (quick) / 3 (thorough) of " + fmt.Sprint(len(pcTemplates)) + " object-schema templates x every instance obtained from 5 universe instances by keeping each subset of top-level members and dropping/emptying nested members, restricted to instances the reference judges valid; LIFO and FIFO pool policies; non-trivial = the post-processing changed the data (" + what + "); every (schema, instance) pair distinct by construction",
	}
	if rep.Counters["nontrivial"] < 2 && rep.HarnessErr == "" {
		rep.HarnessErr = "vacuous: post-processing never changed anything"
	}
	return hx.Finish(c, "exploration", rep, cov, []string{
		"the applicable-schema relation comes from ref/draft4 (all allOf members, the only valid oneOf/anyOf alternative; when several anyOf alternatives are valid any of them may be the selected one)",
		"a JSON null default is not a default; not contributes nothing; additionalProperties:true describes nothing",
	})
}

func postWorker(c *hx.Ctx, prop string) int {
	rep := hx.NewReport()
	schemas := pcSchemas(c.Quick())
	if prop == "C19" {
		// C19 quantifies over schemas built from properties, patternProperties, additionalProperties,
		// items and composition: dependencies are outside (pruning the triggering member changes
		// what the dependency describes, by the semantics of the keyword itself)
		var keep []string
		for _, s := range schemas {
			if !strings.Contains(s, `"dependencies"`) {
				keep = append(keep, s)
			}
		}
		schemas = keep
	}
	var insts []string
	for _, u := range pcUniverses {
		insts = append(insts, pcSubsets(u, 160)...)
	}
	reported := map[string]bool{}
	for si, schema := range schemas {
		if si%c.Workers != c.Worker {
			continue
		}
		if c.Expired() {
			rep.Exhaustive = false
			break
		}
		root, err := draft4.ParseSchema(schema)
		if err != nil {
			continue
		}
		rep.Inc("schemas", 1)
		for _, it := range insts {
			if v, ok := refVerdict(schema, parseInstance(it)); !ok || !v {
				rep.Inc("invalid_skipped", 1)
				continue
			}
			for _, pol := range []int{verifrt.PolicyLIFO, verifrt.PolicyFIFO, verifrt.PolicyLIFO + 10, verifrt.PolicyLIFO + 20, verifrt.PolicyFIFO + 20} {
				pcRecycle = pol >= 10 && pol < 20
				pcPooledResults = pol >= 20
				pol %= 10
				verifrt.SetPoolPolicy(pol)
				before, after, valid, pan := pcRun(prop, schema, it)
				verifrt.SetPoolPolicy(verifrt.PolicyLIFO)
				pcRecycle, pcPooledResults = false, false
				rep.Inc("cases", 1)
				if pan != "" {
					sig := prop + " panic: " + pan
					if !reported[sig] {
						reported[sig] = true
						rep.AddViolation(hx.Violation{Signature: sig, What: fmt.Sprintf("schema %s, instance %s: panic %s", schema, it, pan), Replay: map[string]any{"schema": schema, "instance": it}})
					}
					continue
				}
				if !valid {
					rep.Inc("library_rejects_valid_instance", 1) // C01's subject
					continue
				}
				var d string
				if prop == "C18" {
					d = c18judge(root, before, after)
				} else {
					d = c19judge(root, before, after)
					if d == "" && !pcHasAlternatives(schema) {
						// idempotence: validating and pruning the pruned data again removes nothing
						b2, _ := json.Marshal(after)
						_, after2, valid2, pan2 := pcRun(prop, schema, string(b2))
						if pan2 == "" && valid2 {
							a2, _ := json.Marshal(after2)
							if string(a2) != string(b2) {
								d = fmt.Sprintf("pruning the pruned data again removes more: %s becomes %s", b2, a2)
							}
						}
					}
				}
				if pol == verifrt.PolicyLIFO && hx.JSON(before) != hx.JSON(after) {
					rep.Inc("nontrivial", 1)
				}
				if d == "" {
					continue
				}
				ms, mi := pcShrink(prop, schema, it, d)
				kind := d
				if i := strings.IndexAny(d, "(0123456789"); i > 0 {
					kind = d[:i]
				}
				sig := fmt.Sprintf("%s ⊢ %s", ms, mi)
				if !reported[sig] {
					reported[sig] = true
					_, _, _, _ = kind, ms, mi, d
					rep.AddViolation(hx.Violation{Signature: sig, What: fmt.Sprintf("schema %s, instance %s: %s", ms, mi, pcJudge(prop, ms, mi)),
						Replay: map[string]any{"schema": ms, "instance": mi, "found_as_schema": schema, "found_as_instance": it, "pool_policy": pol}})
				}
				break
			}
		}
		if len(rep.Samples) < 2 {
			rep.Samples = append(rep.Samples, map[string]any{"schema": schema, "instances": len(insts), "example_instance": insts[si%len(insts)]})
		}
	}
	hx.EmitWorkerReport(rep)
	return 0
}

// pcJudge runs one pair and returns the judgement text ("" = fine / not applicable).
func pcJudge(prop, schema, inst string) string {
	root, err := draft4.ParseSchema(schema)
	if err != nil {
		return ""
	}
	if v, ok := refVerdict(schema, parseInstance(inst)); !ok || !v {
		return ""
	}
	before, after, valid, pan := pcRun(prop, schema, inst)
	if pan != "" || !valid {
		return ""
	}
	if prop == "C18" {
		return c18judge(root, before, after)
	}
	if d := c19judge(root, before, after); d != "" {
		return d
	}
	if !pcHasAlternatives(schema) {
		b2, _ := json.Marshal(after)
		_, after2, valid2, pan2 := pcRun(prop, schema, string(b2))
		if pan2 == "" && valid2 {
			a2, _ := json.Marshal(after2)
			if string(a2) != string(b2) {
				return fmt.Sprintf("pruning the pruned data again removes more: %s becomes %s", b2, a2)
			}
		}
	}
	return ""
}

func pcShrink(prop, schema, inst, d string) (string, string) {
	class := func(x string) string {
		for _, k := range []string{"disappeared", "changed", "appeared", "not filled", "removed", "remains", "no longer", "again"} {
			if strings.Contains(x, k) {
				return k
			}
		}
		return x
	}
	want := class(d)
	s0 := shrink.Parse(schema).(map[string]any)
	i0 := shrink.Parse(inst)
	ms, mi := shrink.Pair(s0, i0, func(s map[string]any, i any) bool {
		j := pcJudge(prop, shrink.Text(s), shrink.Text(i))
		return j != "" && class(j) == want
	}, 1500)
	return shrink.Text(ms), shrink.Text(mi)
}
