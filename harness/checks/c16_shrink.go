package checks

import (
	"encoding/json"
	"fmt"
	"reflect"
	"sort"

	"verif/harness/hx"
	"verif/harness/ref/simple"
)

// Shrinking of a C16 disagreement (carrier, definition, value) to a canonical minimal case: an ordered
// list of strictly simplifying candidates is tried until none still shows the same kind of
// disagreement inside the domain. One root cause thus ends in one (or very few) signatures.

type c16state struct {
	header bool
	d      *simple.Def
	v      interface{}
}

type c16shrinker struct {
	memo  map[string]*hx.Violation
	alpha []c16value // the value alphabet, simplest first
}

func newC16shrinker(vals []c16value) *c16shrinker {
	a := append([]c16value(nil), vals...)
	sort.SliceStable(a, func(i, j int) bool { return c16valLess(a[i].v, a[j].v) })
	return &c16shrinker{memo: map[string]*hx.Violation{}, alpha: a}
}

// minimal shrinks in two phases, repeated until neither moves:
//
//	A. local steps that keep the other component: simpler carrier, one element against the items
//	   definition, one constraint / format less, a shorter slice, a simpler scalar, a simpler Go type;
//	B. a simpler definition (also: one array level less, a simpler leaf type) or the same definition,
//	   together with the simplest value of the alphabet that still shows the same kind of
//	   disagreement (so that neither the shape nor the Go type of the value that happened to reveal
//	   the disagreement ends up in the signature).
func (s *c16shrinker) minimal(header bool, d *simple.Def, v interface{}, kind string) *hx.Violation {
	foundAs := c16sig(header, d, v)
	if k, _, _, _ := c16judge(header, d, v); k != kind {
		return &hx.Violation{
			Signature: foundAs + " (unstable)",
			What:      fmt.Sprintf("%s: verdict is not reproducible: first %q, then %q", foundAs, kind, k),
			Replay:    map[string]any{"found_as": foundAs},
		}
	}
	still := func(st c16state) bool {
		if !c16inDomain(st.header, st.d, st.v) {
			return false
		}
		k, _, _, _ := c16judge(st.header, st.d, st.v)
		return k == kind
	}
	cur := c16state{header, d, v}
	path := []string{foundAs + "|" + kind}
	var final *hx.Violation
	adopt := func(st c16state) {
		cur = st
		key := c16sig(cur.header, cur.d, cur.v) + "|" + kind
		if f, ok := s.memo[key]; ok {
			final = f
		}
		path = append(path, key)
	}
	for round := 0; round < 400 && final == nil; round++ {
		moved := false
		for _, cand := range c16candidates(cur) { // phase A
			if still(cand) {
				adopt(cand)
				moved = true
				break
			}
		}
		if moved {
			continue
		}
		defs := append(c16defReductions(cur.d), c16defCollapses(cur.d)...) // phase B
		defs = append(defs, cur.d)
	search:
		for _, nd := range defs {
			for _, av := range s.alpha {
				if nd == cur.d && !c16valLess(av.v, cur.v) {
					break // the alphabet is sorted: nothing simpler is left
				}
				if cand := (c16state{cur.header, nd, av.v}); still(cand) {
					adopt(cand)
					moved = true
					break search
				}
			}
		}
		if !moved {
			break
		}
	}
	if final == nil {
		_, detail, lib, want := c16judge(cur.header, cur.d, cur.v)
		sig := c16sig(cur.header, cur.d, cur.v)
		var lj []byte
		if cur.header {
			lj, _ = json.Marshal(c16header(cur.d))
		} else {
			lj, _ = json.Marshal(c16param(cur.d))
		}
		final = &hx.Violation{
			Signature: sig,
			What:      sig + ": " + detail,
			Replay: map[string]any{
				"carrier": c16carrier(cur.header), "definition": json.RawMessage(lj), "value_go": c16valText(cur.v), "kind": kind,
				"library_errors": lib.errs, "reference_valid": want, "found_as": foundAs,
				"call": map[bool]string{false: "validate.NewParamValidator(&param, strfmt.Default).Validate(value)", true: "validate.NewHeaderValidator(\"h\", &header, strfmt.Default).Validate(value)"}[cur.header],
			},
		}
	}
	for _, k := range path {
		s.memo[k] = final
	}
	return final
}

// c16valKey orders values by simplicity: nil, then by nesting, size, Go type of the leaves (string,
// the numeric kinds with int first, bool), rank of the leaves.
func c16valKey(v interface{}) [4]int {
	if v == nil {
		return [4]int{-1, 0, 0, 0}
	}
	rv := reflect.ValueOf(v)
	leaf := rv.Type()
	depth := 0
	for leaf.Kind() == reflect.Slice {
		leaf = leaf.Elem()
		depth++
	}
	kindRank := 0
	switch {
	case leaf.Kind() == reflect.String:
	case leaf.Kind() == reflect.Bool:
		kindRank = 100
	default:
		for i, t := range c16kinds {
			if t == leaf {
				kindRank = 1 + i
			}
		}
	}
	nodes, rank := 0, 0
	var walk func(rv reflect.Value)
	walk = func(rv reflect.Value) {
		nodes++
		k := rv.Kind()
		switch {
		case k == reflect.Slice:
			for i := 0; i < rv.Len(); i++ {
				walk(rv.Index(i))
			}
		case k == reflect.String:
			r := len(c16strRank)
			for i, s := range c16strRank {
				if s == rv.String() {
					r = i
				}
			}
			rank += r
		case k == reflect.Bool:
			if rv.Bool() {
				rank++
			}
		case c16isNum(k):
			r := len(c16numRank)
			x, _ := simple.Rat(rv.Interface())
			for i, f := range c16numRank {
				if x != nil && simple.MustRat(f).Cmp(x) == 0 {
					r = i
				}
			}
			rank += r
		}
	}
	walk(rv)
	return [4]int{depth, nodes, kindRank, rank}
}

func c16valLess(a, b interface{}) bool {
	ka, kb := c16valKey(a), c16valKey(b)
	for i := range ka {
		if ka[i] != kb[i] {
			return ka[i] < kb[i]
		}
	}
	return c16valText(a) < c16valText(b)
}

var c16typeRank = []string{"string", "number", "integer", "boolean"}

// c16defCollapses lists the definitions with one array level less, or with a simpler leaf type
// (format and enum of the leaf go with its type).
func c16defCollapses(d *simple.Def) []*simple.Def {
	var out []*simple.Def
	depth := 0
	for x := d; x != nil; x = x.Items {
		depth++
	}
	for l := 0; l+1 < depth; l++ { // level l is an array level
		c := c16clone(d)
		if l == 0 {
			c = c.Items
		} else {
			c16level(c, l-1).Items = c16level(c, l).Items
		}
		out = append(out, c)
	}
	leaf := c16level(d, depth-1)
	for _, t := range c16typeRank {
		if t == leaf.Type || leaf.Type == "array" {
			break
		}
		c := c16clone(d)
		x := c16level(c, depth-1)
		x.Type, x.Format, x.Enum = t, "", nil
		if t != "number" { // keep an integer-typed or untyped-number bound well typed
			for _, b := range []*float64{x.Maximum, x.Minimum, x.MultipleOf} {
				if b != nil && *b != float64(int64(*b)) {
					x = nil
					break
				}
			}
		}
		if x != nil {
			out = append(out, c)
		}
	}
	return out
}

// c16candidates lists the one-step simplifications of a state, simplest first.
func c16candidates(st c16state) []c16state {
	var out []c16state
	// 1. the parameter is the simpler carrier
	if st.header {
		out = append(out, c16state{false, st.d, st.v})
	}
	// 2. less nesting: judge one element against the items definition
	if st.v != nil {
		rv := reflect.ValueOf(st.v)
		if st.d.Type == "array" && st.d.Items != nil && rv.Kind() == reflect.Slice {
			for i := 0; i < rv.Len(); i++ {
				out = append(out, c16state{st.header, c16clone(st.d.Items), rv.Index(i).Interface()})
			}
		}
	}
	// 3. fewer constraints, then simpler format
	for _, d := range c16defReductions(st.d) {
		out = append(out, c16state{st.header, d, st.v})
	}
	// 4. smaller / simpler value
	if st.v != nil {
		rv := reflect.ValueOf(st.v)
		for _, r := range c16reduce(rv) {
			out = append(out, c16state{st.header, st.d, r.Interface()})
		}
		for _, r := range c16retargets(rv) {
			out = append(out, c16state{st.header, st.d, r.Interface()})
		}
	}
	return out
}

func c16level(d *simple.Def, l int) *simple.Def {
	for ; l > 0 && d != nil; l-- {
		d = d.Items
	}
	return d
}

func c16defReductions(d *simple.Def) []*simple.Def {
	var out []*simple.Def
	depth := 0
	for x := d; x != nil; x = x.Items {
		depth++
	}
	edit := func(l int, f func(x *simple.Def)) {
		c := c16clone(d)
		f(c16level(c, l))
		out = append(out, c)
	}
	for l := 0; l < depth; l++ {
		x := c16level(d, l)
		if len(x.Enum) > 0 {
			edit(l, func(x *simple.Def) { x.Enum = nil })
		}
		if x.Maximum != nil {
			edit(l, func(x *simple.Def) { x.Maximum, x.ExclusiveMaximum = nil, false })
			if x.ExclusiveMaximum {
				edit(l, func(x *simple.Def) { x.ExclusiveMaximum = false })
			}
		}
		if x.Minimum != nil {
			edit(l, func(x *simple.Def) { x.Minimum, x.ExclusiveMinimum = nil, false })
			if x.ExclusiveMinimum {
				edit(l, func(x *simple.Def) { x.ExclusiveMinimum = false })
			}
		}
		if x.MultipleOf != nil {
			edit(l, func(x *simple.Def) { x.MultipleOf = nil })
		}
		if x.MaxLength != nil {
			edit(l, func(x *simple.Def) { x.MaxLength = nil })
		}
		if x.MinLength != nil {
			edit(l, func(x *simple.Def) { x.MinLength = nil })
		}
		if x.Pattern != "" {
			edit(l, func(x *simple.Def) { x.Pattern = "" })
		}
		if x.MaxItems != nil {
			edit(l, func(x *simple.Def) { x.MaxItems = nil })
		}
		if x.MinItems != nil {
			edit(l, func(x *simple.Def) { x.MinItems = nil })
		}
		if x.UniqueItems {
			edit(l, func(x *simple.Def) { x.UniqueItems = false })
		}
	}
	for l := 0; l < depth; l++ {
		x := c16level(d, l)
		if x.Format == "" {
			if x.Type == "integer" { // number is the weaker declaration
				edit(l, func(x *simple.Def) { x.Type = "number" })
			}
			continue
		}
		edit(l, func(x *simple.Def) { x.Format = "" })
		if fs := c16formatsOf[x.Type]; len(fs) > 0 && fs[0] != x.Format {
			edit(l, func(x *simple.Def) { x.Format = fs[0] })
		}
	}
	return out
}

// c16reduce lists the one-step reductions of a value: a shorter slice, a simpler scalar of the same
// Go type, recursively inside slices.
func c16reduce(rv reflect.Value) []reflect.Value {
	var out []reflect.Value
	k := rv.Kind()
	switch {
	case k == reflect.Slice:
		n := rv.Len()
		t := rv.Type()
		if n >= 1 {
			out = append(out, reflect.MakeSlice(t, 0, 0))
		}
		if n > 1 {
			for i := 0; i < n; i++ {
				out = append(out, reflect.Append(reflect.MakeSlice(t, 0, 1), rv.Index(i)))
			}
		}
		if n > 2 {
			for i := 0; i < n; i++ {
				s := reflect.MakeSlice(t, 0, n-1)
				for j := 0; j < n; j++ {
					if j != i {
						s = reflect.Append(s, rv.Index(j))
					}
				}
				out = append(out, s)
			}
		}
		for i := 0; i < n; i++ {
			for _, r := range c16reduce(rv.Index(i)) {
				s := reflect.MakeSlice(t, 0, n)
				for j := 0; j < n; j++ {
					if j == i {
						s = reflect.Append(s, r)
					} else {
						s = reflect.Append(s, rv.Index(j))
					}
				}
				out = append(out, s)
			}
		}
	case c16isNum(k):
		cur, _ := simple.Rat(rv.Interface())
		for _, x := range c16numRank {
			r, _ := simple.Rat(x)
			if cur != nil && r.Cmp(cur) == 0 {
				break
			}
			if c16repr(k, x) {
				out = append(out, c16conv(rv.Type(), x))
			}
		}
	case k == reflect.String:
		for _, s := range c16strRank {
			if s == rv.String() {
				break
			}
			out = append(out, reflect.ValueOf(s).Convert(rv.Type()))
		}
	case k == reflect.Bool:
		if rv.Bool() {
			out = append(out, reflect.ValueOf(false).Convert(rv.Type()))
		}
	}
	return out
}

// c16retargets re-types the numeric leaves of a value to each simpler Go numeric type that holds all
// of them exactly (int first): a width-independent cause ends on int.
func c16retargets(rv reflect.Value) []reflect.Value {
	leaf := rv.Type()
	for leaf.Kind() == reflect.Slice {
		leaf = leaf.Elem()
	}
	if !c16isNum(leaf.Kind()) {
		return nil
	}
	var out []reflect.Value
	for _, t := range c16kinds {
		if t == leaf {
			break
		}
		if r, ok := c16retype(rv, t); ok {
			out = append(out, r)
		}
	}
	return out
}

func c16retype(rv reflect.Value, leaf reflect.Type) (reflect.Value, bool) {
	if rv.Kind() == reflect.Slice {
		t := leaf
		for x := rv.Type(); x.Kind() == reflect.Slice; x = x.Elem() {
			t = reflect.SliceOf(t)
		}
		s := reflect.MakeSlice(t, 0, rv.Len())
		for i := 0; i < rv.Len(); i++ {
			e, ok := c16retype(rv.Index(i), leaf)
			if !ok {
				return reflect.Value{}, false
			}
			s = reflect.Append(s, e)
		}
		return s, true
	}
	y := rv.Convert(leaf)
	a, ok1 := simple.Rat(rv.Interface())
	b, ok2 := simple.Rat(y.Interface())
	if !ok1 || !ok2 || a.Cmp(b) != 0 {
		return reflect.Value{}, false
	}
	return y, true
}
