package checks

import (
	"encoding/json"
	"fmt"
	"os"
	"strings"
	"time"

	"github.com/go-openapi/strfmt"
	"github.com/go-openapi/validate"
	"github.com/go-openapi/validate/post"
	"github.com/go-openapi/validate/verifrt"

	"verif/harness/hx"
)

// C05 — concurrent validations are race-free and independent of each other.
//
// 2-3 scheduler-controlled threads issue library calls; every interleaving at the library's own
// synchronisation operations (pool get/put, mutexes, atomic.Value) with a bounded number of
// preemptions is explored, with the race detector awake in each of them. Oracle: each call returns
// its solo outcome; the race log does not grow; no deadlock.

func init() { Registry["C05"] = c05 }

const c05docA = `{"swagger":"2.0","info":{"title":"a","version":"1"},"paths":{"/a":{"get":{"operationId":"ga","responses":{"200":{"description":"ok","schema":{"$ref":"#/definitions/A"}}}}}},"definitions":{"A":{"type":"object","required":["n"],"properties":{"n":{"type":"integer"}}},"B":{"type":"object","required":["m"],"properties":{"m":{"type":"string"}}}}}`
const c05docB = `{"swagger":"2.0","info":{"title":"b","version":"1"},"paths":{"/b/{id}":{"get":{"operationId":"gb","responses":{"200":{"description":"ok"}}}}},"definitions":{"C":{"type":"object","required":["zz"],"properties":{"n":{"type":"integer"}}}}}`

type c05scn struct {
	name    string
	threads [][]Op
	heavy   bool // contains a whole-spec validation
	shared  string
	cold    bool // heavy scenario that nevertheless starts from an empty regexp cache
}

var (
	c05a1 = Op{Kind: "against", Def: `{"type":"object","required":["b"],"properties":{"a":{"type":"integer","maximum":2}}}`, Val: `{"a":3}`}
	c05a2 = Op{Kind: "against", Def: `{"type":"array","items":{"type":"string","minLength":2}}`, Val: `["aa","b"]`}
	c05a3 = Op{Kind: "against", Def: `{"anyOf":[{"type":"integer"},{"type":"string","pattern":"^a+$"}]}`, Val: `"aa"`}
	c05a4 = Op{Kind: "against", Def: `{"type":"number","maximum":2,"multipleOf":0.5}`, Val: `3`}
	c05a5 = Op{Kind: "against", Def: `{"oneOf":[{"type":"string"},{"type":"integer"},{"maximum":2}]}`, Val: `1`}
	c05a6 = Op{Kind: "against", Def: `{"type":"string","pattern":"^fresh+$"}`, Val: `"fresh"`}
	c05p1 = Op{Kind: "param", Def: c04params[8], Val: `[]string:aa|b`}
	c05h1 = Op{Kind: "header", Def: c04headers[0], Val: `int32:3`}
	c05sA = Op{Kind: "specdef", Def: c05docA}
	c05sB = Op{Kind: "specdef", Def: c05docB}
	c05on = Op{Kind: "setcontinue", Val: "true"}
)

func c05scenarios(quick bool) []c05scn {
	s := []c05scn{
		{name: "one-shot ∥ one-shot", threads: [][]Op{{c05a1}, {c05a2}}},
		{name: "one-shot ∥ one-shot", threads: [][]Op{{c05a1}, {c05a1}}},
		{name: "one-shot ∥ one-shot", threads: [][]Op{{c05a3}, {c05a4}}},
		{name: "one-shot;one-shot ∥ one-shot", threads: [][]Op{{c05a1, c05a3}, {c05a2}}},
		{name: "one-shot ∥ param", threads: [][]Op{{c05a4}, {c05p1}}},
		{name: "oneOf with a failing then two matching alternatives ; deep ∥ deep", threads: [][]Op{{c05a5, c04amplifiers[0]}, {c04amplifiers[1]}}},
		{name: "param ∥ header", threads: [][]Op{{c05p1}, {c05h1}}},
		{name: "shared schema validator", shared: "schema", threads: [][]Op{{{Kind: "shared", Val: `{"a":[1,"x"],"b":"aa","s_x":"abc","t":[1,"2020-01-01",true]}`}}, {{Kind: "shared", Val: `{"a":[1],"c":3,"i_y":3,"o":1,"s_z":"ab"}`}}}},
		{name: "shared schema validator", shared: "schema", threads: [][]Op{{{Kind: "shared", Val: `{"i_a":4,"i_b":5,"t":[1,"x",1],"o":7}`}}, {{Kind: "shared", Val: `{"s_a":"abcd","s_b":"a","b":"bb","o":"s"}`}, {Kind: "shared", Val: `{"a":["xx",3]}`}}}},
		{name: "shared schema validator, defaults applied to each result", shared: "defaults", threads: [][]Op{{{Kind: "shared", Val: `{"p2":"x","n":{"q2":1}}`}}, {{Kind: "shared", Val: `{"p1":5,"n":{}}`}}}},
		{name: "shared param validator", shared: "param", threads: [][]Op{{{Kind: "shared", Val: `[]string:aa|b`}}, {{Kind: "shared", Val: `[]string:aa|bb`}}}},
		{name: "helpers", threads: [][]Op{{{Kind: "helper", Def: "pattern"}}, {{Kind: "helper", Def: "enum"}, {Kind: "helper", Def: "pattern"}}}},
		{name: "setter ∥ spec", heavy: true, threads: [][]Op{{c05on}, {c05sB}}},
		{name: "spec ∥ spec", heavy: true, threads: [][]Op{{c05sA}, {c05sB}}},
		{name: "spec ∥ one-shot", heavy: true, threads: [][]Op{{c05sA}, {c05a1}}},
		// the path helpers of spec validation and a schema with a pattern nobody compiled yet both go to the
		// regexp cache: from an empty cache (the warm-up is where a cache is written)
		{name: "spec (cold regexp cache) ∥ one-shot with a new pattern", heavy: true, cold: true, threads: [][]Op{{c05sB}, {c05a6}}},
	}
	if !quick {
		s = append(s,
			c05scn{name: "3 threads one-shot", threads: [][]Op{{c05a1}, {c05a2}, {c05a3}}},
			c05scn{name: "3 threads mixed", threads: [][]Op{{c05a4}, {c05p1}, {c05h1}}},
			c05scn{name: "one-shot;one-shot ∥ one-shot;one-shot", threads: [][]Op{{c05a1, c05a4}, {c05a2, c05a3}}},
			c05scn{name: "spec ∥ spec (same shape)", heavy: true, threads: [][]Op{{c05sB}, {c05sB}}},
			c05scn{name: "setter ∥ spec ∥ one-shot", heavy: true, threads: [][]Op{{c05on}, {c05sA}, {c05a2}}},
		)
	}
	return s
}

// the shared long-lived validator exercises every keyword group that owns sub-validators or scratch
// state: properties, two pattern properties with different sub-schemas, additionalProperties, tuple and
// list items, anyOf/oneOf/not, dependencies, enum, format, numeric and string constraints
const c05sharedSchema = `{"type":"object","properties":{"a":{"type":"array","items":{"anyOf":[{"type":"integer","maximum":2},{"type":"string","minLength":2}]}},"b":{"type":"string","pattern":"^b"},"t":{"type":"array","items":[{"type":"integer"},{"type":"string","format":"date"}],"additionalItems":{"type":"boolean"},"uniqueItems":true},"o":{"oneOf":[{"type":"integer"},{"maximum":2},{"type":"string"}],"not":{"enum":[7]}}},"patternProperties":{"^s_":{"type":"string","minLength":3},"^i_":{"type":"integer","multipleOf":2}},"dependencies":{"b":{"required":["a"]}},"additionalProperties":{"type":"string"},"minProperties":1}`

// a long-lived validator whose properties carry different defaults (the part of a result that
// post.ApplyDefaults consumes is returned by the call as well)
const c05defaultsSchema = `{"type":"object","properties":{"p1":{"type":"integer","default":1},"p2":{"type":"string","default":"two"},"p3":{"type":"boolean","default":true},"n":{"type":"object","properties":{"q1":{"type":"integer","default":11},"q2":{"type":"integer","default":12}}}}}`

// c05defaulted is the outcome of one call on the validator above: messages + the document after
// post.ApplyDefaults.
func c05defaulted(v *validate.SchemaValidator, val string) string {
	data := parseInstance(val)
	res := v.Validate(data)
	out := resultOutcome(res).Key()
	post.ApplyDefaults(res)
	return out + " ; after ApplyDefaults: " + c05json(data)
}

func c05json(v any) string {
	b, _ := json.Marshal(v) // map keys are sorted by encoding/json
	return string(b)
}

func c05(c *hx.Ctx) int {
	if c.Worker >= 0 {
		return c05worker(c)
	}
	if c.Quick() {
		c.Budget = 240 * second
	} else {
		c.Budget = 2400 * second
	}
	if !verifrt.RaceEnabled {
		fmt.Println("HARNESS-ERROR C05 must be built with -race")
		return 2
	}
	rep := c.RunWorkers(16, 16)
	cov := map[string]any{
		"states":                        rep.SetSize("observations"),
		"transitions":                   rep.Counters["sched_points"],
		"traces_validated_against_impl": rep.Counters["schedules"],
		"scenarios":                     rep.Counters["scenario_shards"],
		"context_switches":              rep.Counters["switches"],
		"race_detector":                 "on in every explored schedule (scheduler hand-offs carry no happens-before; shims publish the edges of the real primitives)",
		"rule":                          "2 (quick) / 2-3 (thorough) threads, 1-2 calls each; scheduling points before every pool Get/Put, mutex and atomic.Value operation; light scenarios: all schedules with <= 2 preemptions for two of them and <= 1 for the others (quick) / <= 3 for all (thorough); scenarios containing a whole-spec validation: <= 1 preemption at result-pool Get and mutex points (quick) / at every pool point (thorough)",
	}
	if rep.Counters["switches"] == 0 && rep.HarnessErr == "" {
		rep.HarnessErr = "vacuous: no context switch happened"
	}
	return hx.Finish(c, "model_checking", rep, cov, []string{
		"sequentially consistent memory; interleavings inside dependency critical sections are atomic to the explorer (races there are still reported by the detector)",
		"<= 3 threads, <= 2 calls each; schemas shared between threads contain no $ref",
	})
}

func c05worker(c *hx.Ctx) int {
	rep := hx.NewReport()
	sets := hx.NewSetAdder()
	scns := c05scenarios(c.Quick())
	light := 0
	for si, s := range scns {
		if only := os.Getenv("VERIF_C05_ONLY"); only != "" && !strings.Contains(s.name, only) {
			continue // debugging aid: one scenario
		}
		if c.Expired() {
			rep.Exhaustive = false
			break
		}
		s := s
		// light scenarios are split over workers by first deviation too (they are the bulk of the
		// schedules); heavy ones as well (each execution costs seconds under -race)
		_ = si
		var shared *validate.SchemaValidator
		var sharedParam *validate.ParamValidator
		scn := Scenario{Name: s.name, Cfg: verifrt.SchedConfig{Mutex: true, Atomic: true, Pool: true}}
		bound := 2
		if !c.Quick() {
			bound = 3
		} else if si != 0 && si != 3 {
			bound = 1 // quick: two preemptions for the first and the two-call scenario, one elsewhere
		}
		if s.heavy {
			bound = 1
			if c.Quick() {
				// quick: preempt only where a result is borrowed (the other thread can then take the
				// result this thread has just redeemed) and at mutex operations
				scn.Cfg.PoolOnly, scn.Cfg.PoolGetOnly, scn.Cfg.Atomic = "Result", true, false
			}
		} else {
			light++
		}
		scn.Setup = func() {
			resetPools()
			validate.SetContinueOnErrors(false)
			if !s.heavy || s.cold {
				validate.Pattern("flush", "query", "x", "^verif-flush$") // state flush, see c15.go
				validate.VerifSetRegexpCache()                           // heavy scenarios keep the (warm) regexp cache: ~1000 lock-free lookups
			}
			switch s.shared {
			case "schema":
				sch, _ := parseSpecSchema(c05sharedSchema)
				shared = validate.NewSchemaValidator(sch, nil, "", strfmt.Default)
			case "defaults":
				sch, _ := parseSpecSchema(c05defaultsSchema)
				shared = validate.NewSchemaValidator(sch, nil, "", strfmt.Default)
			case "param":
				p, _ := parseParam(c04params[8])
				sharedParam = validate.NewParamValidator(p, strfmt.Default)
			}
		}
		// solo outcomes
		want := make([][][]string, len(s.threads))
		for t, th := range s.threads {
			var calls []Call
			for _, o := range th {
				o := o
				switch o.Kind {
				case "shared":
					if s.shared == "defaults" {
						calls = append(calls, Call{Name: "shared.Validate+ApplyDefaults(" + o.Val + ")", Do: func() string { return c05defaulted(shared, o.Val) }})
						sch, _ := parseSpecSchema(c05defaultsSchema)
						want[t] = append(want[t], []string{c05defaulted(validate.NewSchemaValidator(sch, nil, "", strfmt.Default), o.Val)})
					} else if s.shared == "schema" {
						calls = append(calls, Call{Name: "shared.Validate(" + o.Val + ")", Do: func() string { return resultOutcome(shared.Validate(parseInstance(o.Val))).Key() }})
						fo, _ := validatorObject(c05sharedSchema, parseInstance(o.Val), "", strfmt.Default)
						want[t] = append(want[t], []string{fo.Key()})
					} else {
						calls = append(calls, Call{Name: "sharedParam.Validate(" + o.Val + ")", Do: func() string { return resultOutcome(sharedParam.Validate(goValue(o.Val))).Key() }})
						p, _ := parseParam(c04params[8])
						want[t] = append(want[t], []string{resultOutcome(validate.NewParamValidator(p, strfmt.Default).Validate(goValue(o.Val))).Key()})
					}
				case "helper":
					f := func() string {
						if o.Def == "pattern" {
							return fmt.Sprint(validate.Pattern("p", "q", "aa", "^a+$") == nil, validate.Pattern("p", "q", "bb", "^a+$") == nil)
						}
						return fmt.Sprint(validate.Enum("p", "q", 1, []any{1, 2}) == nil, validate.UniqueItems("p", "q", []any{1, 1}) == nil)
					}
					calls = append(calls, Call{Name: "helper:" + o.Def, Do: f})
					want[t] = append(want[t], []string{f()})
				case "setcontinue":
					calls = append(calls, Call{Name: "SetContinueOnErrors(true)", Do: func() string { validate.SetContinueOnErrors(true); return "" }})
					want[t] = append(want[t], []string{""})
				case "specdef":
					calls = append(calls, Call{Name: "Spec(" + specTitle(o.Def) + ")", Do: func() string { return o.Run().Key() }})
					// both sequential explanations are acceptable when a setter runs concurrently
					off := soloOutcome(Op{Kind: "spec", Def: o.Def, Val: ""}).Key()
					on := soloOutcome(Op{Kind: "spec", Def: o.Def, Val: "continue"}).Key()
					w := []string{off}
					for _, th2 := range s.threads {
						for _, o2 := range th2 {
							if o2.Kind == "setcontinue" {
								w = []string{off, on}
							}
						}
					}
					want[t] = append(want[t], w)
				default:
					calls = append(calls, Call{Name: o.String(), Do: func() string { return o.Run().Key() }})
					want[t] = append(want[t], []string{soloOutcome(o).Key()})
				}
			}
			scn.Threads = append(scn.Threads, calls)
		}
		scn.Expect = func(obs [][]string) string {
			for t := range obs {
				for i := range obs[t] {
					ok := false
					for _, w := range want[t][i] {
						if obs[t][i] == w {
							ok = true
						}
					}
					if !ok {
						return fmt.Sprintf("thread %d call %s returned %s, alone it returns %s", t, scn.Threads[t][i].Name, obs[t][i], strings.Join(want[t][i], " or "))
					}
				}
			}
			return ""
		}
		limit := 400000
		t0 := time.Now()
		st := exploreScenarioSharded(scn, bound, limit, c.Worker, c.Workers, rep, sets)
		if s.heavy || c.Worker == 0 {
			rep.Notes = append(rep.Notes, fmt.Sprintf("%s: shard "+fmt.Sprint(c.Worker)+" ran %d schedules (%d points) in %.1fs", s.name, st.Execs, st.Points, time.Since(t0).Seconds()))
		}
		rep.Inc("scenario_shards", 1)
		rep.Inc("schedules", st.Execs)
		rep.Inc("sched_points", st.Points)
		rep.Inc("switches", st.Switches)
		if c.Worker == 0 && len(rep.Samples) < 4 {
			rep.Samples = append(rep.Samples, map[string]any{"scenario": scn.describe(), "schedules_in_this_shard": st.Execs, "preemption_bound": bound})
		}
	}
	validate.SetContinueOnErrors(false)
	sets.Flush(rep)
	hx.EmitWorkerReport(rep)
	return 0
}

func specTitle(doc string) string {
	i := strings.Index(doc, `"title":"`)
	if i < 0 {
		return "?"
	}
	r := doc[i+9:]
	return r[:strings.Index(r, `"`)]
}
