package checks

import "sort"

// corpusProviders lets the spec-level checks share their document corpora (JSON texts of Swagger 2.0
// documents): C03 registers its grammar corpus, C09 its defaults/examples corpus; C10 and C12 iterate
// over all of them.
var corpusProviders = map[string]func(quick bool) []string{}

func allCorpora(quick bool) []string {
	var names []string
	for n := range corpusProviders {
		names = append(names, n)
	}
	sort.Strings(names)
	seen := map[string]bool{}
	var out []string
	for _, n := range names {
		for _, d := range corpusProviders[n](quick) {
			if !seen[d] {
				seen[d] = true
				out = append(out, d)
			}
		}
	}
	return out
}

func c12documents(quick bool) []string {
	docs := allCorpora(quick)
	docs = append(docs, c04specValid, c04specInvalid, c05docA, c05docB)
	docs = append(docs, c10multi...)
	return docs
}
