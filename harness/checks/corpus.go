package checks

import "sort"

// corpusProviders lets the spec-level checks share their document corpora (JSON texts of Swagger 2.0
// documents): C03 registers its grammar corpus, C09 its defaults/examples corpus; C10 and C12 iterate
// over all of them.
var corpusProviders = map[string]func(quick bool) []string{}

func allCorpora(quick bool) []string {
	var names []string
	for n := range corpusProviders {
		names = append(names, n)
	}
	sort.Strings(names)
	seen := map[string]bool{}
	var out []string
	for _, n := range names {
		for _, d := range corpusProviders[n](quick) {
			if !seen[d] {
				seen[d] = true
				out = append(out, d)
			}
		}
	}
	return out
}

func c12documents(quick bool) []string {
	docs := allCorpora(quick)
	docs = append(docs, c04specValid, c04specInvalid, c05docA, c05docB)
	docs = append(docs, c10multi...)
	docs = append(docs, c12extraDocs...)
	return docs
}

// valid documents whose definitions hold references BELOW a schema that carries a default or an
// example (array items, a property, additionalProperties, an allOf member): the walkers compile such
// schemas, and compiling resolves references in place
var c12extraDocs = []string{
	`{"swagger":"2.0","info":{"title":"t","version":"1"},"paths":{"/a":{"get":{"operationId":"g","responses":{"200":{"description":"ok","schema":{"$ref":"#/definitions/L"}}}}}},"definitions":{"I":{"type":"object","properties":{"n":{"type":"integer"}}},"L":{"type":"array","items":{"$ref":"#/definitions/I"},"default":[{"n":1}]}}}`,
	`{"swagger":"2.0","info":{"title":"t","version":"1"},"paths":{"/a":{"get":{"operationId":"g","responses":{"200":{"description":"ok","schema":{"$ref":"#/definitions/L"}}}}}},"definitions":{"I":{"type":"object","properties":{"n":{"type":"integer"}}},"L":{"type":"object","properties":{"xs":{"type":"array","items":{"$ref":"#/definitions/I"},"example":[{"n":1}]},"one":{"$ref":"#/definitions/I"}},"additionalProperties":{"$ref":"#/definitions/I"},"default":{"one":{"n":2},"zz":{"n":3}}}}}`,
	`{"swagger":"2.0","info":{"title":"t","version":"1"},"paths":{"/a":{"post":{"operationId":"p","parameters":[{"name":"b","in":"body","schema":{"type":"array","items":{"$ref":"#/definitions/I"},"default":[{"n":1}]}}],"responses":{"200":{"description":"ok","schema":{"allOf":[{"$ref":"#/definitions/I"},{"type":"object","properties":{"m":{"type":"string"}}}],"example":{"n":1,"m":"x"}}}}}}},"definitions":{"I":{"type":"object","properties":{"n":{"type":"integer"}}}}}`,
}
