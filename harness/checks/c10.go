package checks

import (
	"encoding/json"
	"fmt"
	"os"
	"path/filepath"
	"regexp"
	"sort"
	"strings"

	"github.com/go-openapi/loads"
	"github.com/go-openapi/strfmt"
	"github.com/go-openapi/validate"
	"github.com/go-openapi/validate/verifrt"

	"verif/harness/hx"
)

// C10 — spec validation is deterministic, monotone, and keeps warnings apart.
//
// For every document of the corpus the set of executions {8 map-iteration policies} x {member order
// as written / reversed} x {loaded from memory / from a .json file / from a .yaml file} x {first call /
// after another document / second call on the same validator} (thorough: plus every single deviation
// of the iteration start at each `range` site inside the spec-level code) must give ONE outcome per
// continue-on-errors setting.

func init() { Registry["C10"] = c10 }

// documents with several independent findings (order-dependence needs at least two)
var c10multi = []string{
	// two definitions each with an undefined required name
	`{"swagger":"2.0","info":{"title":"t","version":"1"},"paths":{"/a":{"get":{"operationId":"g","responses":{"200":{"description":"ok"}}}}},"definitions":{"A":{"type":"object","required":["zz"],"properties":{"n":{"type":"integer"}}},"B":{"type":"object","required":["yy"],"properties":{"m":{"type":"string"}}},"C":{"type":"object","required":["xx","n"],"properties":{"n":{"type":"integer"}}}}}`,
	// duplicate inherited properties in two definitions and a cycle in two others
	`{"swagger":"2.0","info":{"title":"t","version":"1"},"paths":{"/a":{"get":{"operationId":"g","responses":{"200":{"description":"ok"}}}}},"definitions":{"Base":{"type":"object","properties":{"name":{"type":"string"},"id":{"type":"integer"}}},"Dog":{"allOf":[{"$ref":"#/definitions/Base"},{"type":"object","properties":{"name":{"type":"string"}}}]},"Cat":{"allOf":[{"$ref":"#/definitions/Base"},{"type":"object","properties":{"id":{"type":"integer"},"name":{"type":"string"}}}]},"C1":{"allOf":[{"$ref":"#/definitions/C2"}]},"C2":{"allOf":[{"$ref":"#/definitions/C1"}]}}}`,
	// two cycles
	`{"swagger":"2.0","info":{"title":"t","version":"1"},"paths":{"/a":{"get":{"operationId":"g","responses":{"200":{"description":"ok"}}}}},"definitions":{"C1":{"allOf":[{"$ref":"#/definitions/C2"}]},"C2":{"allOf":[{"$ref":"#/definitions/C1"}]},"D1":{"allOf":[{"$ref":"#/definitions/D2"}]},"D2":{"allOf":[{"$ref":"#/definitions/D3"}]},"D3":{"allOf":[{"$ref":"#/definitions/D1"}]}}}`,
	// several operations with several parameter problems, duplicate operation ids, unused shared objects (warnings)
	`{"swagger":"2.0","info":{"title":"t","version":"1"},"parameters":{"unused1":{"name":"u","in":"query","type":"string"},"unused2":{"name":"v","in":"query","type":"string"}},"responses":{"unusedr":{"description":"x"}},"paths":{"/a/{id}":{"get":{"operationId":"same","parameters":[{"name":"q","in":"query","type":"array"}],"responses":{"200":{"description":"ok"}}},"put":{"operationId":"same","parameters":[{"name":"id","in":"path","required":true,"type":"string"},{"name":"b1","in":"body","schema":{"type":"object"}},{"name":"b2","in":"body","schema":{"type":"object"}}],"responses":{"200":{"description":"ok"}}}},"/b/{x}/{x}":{"get":{"operationId":"other","parameters":[{"name":"x","in":"path","required":true,"type":"string"},{"name":"f","in":"formData","type":"string"},{"name":"b","in":"body","schema":{"type":"string"}}],"responses":{"200":{"description":"ok"}}}}},"definitions":{"U1":{"type":"object"},"U2":{"type":"object"}}}`,
	// only warnings: unused definitions / parameters, required+default
	`{"swagger":"2.0","info":{"title":"t","version":"1"},"parameters":{"unused1":{"name":"u","in":"query","type":"string"}},"paths":{"/a":{"get":{"operationId":"g","parameters":[{"name":"q","in":"query","type":"string","required":true,"default":"d"}],"responses":{"200":{"description":"ok"}}}}},"definitions":{"U1":{"type":"object"},"U2":{"type":"object","properties":{"a":{"type":"string"}}}}}`,
	// bad defaults and examples in several places
	`{"swagger":"2.0","info":{"title":"t","version":"1"},"paths":{"/a":{"get":{"operationId":"g","parameters":[{"name":"q","in":"query","type":"integer","default":"x"},{"name":"r","in":"query","type":"string","default":1}],"responses":{"200":{"description":"ok","schema":{"$ref":"#/definitions/A"},"headers":{"X-A":{"type":"integer","default":"h"},"X-B":{"type":"boolean","default":3}}}}}}},"definitions":{"A":{"type":"object","properties":{"n":{"type":"integer","default":"bad","example":"bad"},"m":{"type":"string","default":5},"o":{"type":"boolean","example":7}}}}}`,
}

// c10triggers are validated before the document under test in the "after-other" history.
var c10triggers = []string{
	c04specInvalid,
	`{"swagger":"2.0","info":{"title":"t","version":"1"},"paths":{"/a":{"get":{"operationId":"g","responses":{"200":{"description":"ok"}}}}},"definitions":{"Base":{"type":"object","properties":{"n":{"type":"string"}}},"Bad":{"allOf":[{"$ref":"#/definitions/Base"},{"$ref":"#/definitions/Nowhere"},{"type":"object","properties":{"n":{"type":"string"}}}]},"Worse":{"allOf":[{"$ref":"#/definitions/Bad"},{"type":"object","properties":{"n":{"type":"integer"}}}]}}}`,
	c10multi[1], c10multi[3],
}

func init() {
	// a valid document whose path item declares a body parameter with a $ref'd schema (shared by
	// its operations) and operation-level parameters with $ref'd schemas
	c10multi = append(c10multi,
		// operations with several status-code responses of which only some break the rules about array
		// items (an items pattern that does not compile, in a body and in a header): every response must
		// be looked at, whichever the iteration over the status codes visits last
		`{"swagger":"2.0","info":{"title":"t","version":"1"},"paths":{"/r":{"get":{"operationId":"r","responses":{"200":{"description":"ok","schema":{"type":"array","items":{"type":"string","pattern":"a(b"}}},"201":{"description":"created"},"404":{"description":"nf","schema":{"type":"array","items":{"type":"string","pattern":"^ok$"}}},"409":{"description":"c","headers":{"X-L":{"type":"array","items":{"type":"string","pattern":"[z-a]"}}}}}},"put":{"operationId":"u","responses":{"200":{"description":"ok"},"202":{"description":"acc","schema":{"type":"array","items":{"type":"string","pattern":"(("}}},"default":{"description":"d"}}}}}}`,
		// an unresolvable reference NEXT TO findings of the later rules (duplicate operation ids, an
		// undeclared path parameter, an array parameter without items, a rejected default): with
		// continue-on-errors those rules run on the unexpanded document, and they must do so whatever the
		// validator object validated before
		`{"swagger":"2.0","info":{"title":"t","version":"1"},"paths":{"/u/{uid}":{"get":{"operationId":"same","parameters":[{"name":"l","in":"query","type":"array"},{"name":"d","in":"query","type":"integer","default":"x"}],"responses":{"200":{"description":"ok","schema":{"$ref":"#/definitions/Nowhere"}}}},"put":{"operationId":"same","responses":{"200":{"description":"ok","schema":{"$ref":"#/definitions/Here"}}}}}},"definitions":{"Here":{"type":"object","required":["zz"],"properties":{"n":{"type":"integer"}}}}}`,
		// warning-only rules that no other document reaches: a required read-only property (declared, by
		// pattern, by additionalProperties), validation keywords that do not fit the parameter type, a
		// garbled placeholder in a path, a required parameter with a default
		`{"swagger":"2.0","info":{"title":"t","version":"1"},"paths":{"/g/{g id}":{"get":{"operationId":"g","parameters":[{"name":"g id","in":"path","required":true,"type":"string","maxItems":2,"minimum":1},{"name":"n","in":"query","type":"integer","maxLength":3,"uniqueItems":true},{"name":"l","in":"query","type":"array","items":{"type":"string"},"pattern":"^a","multipleOf":2}],"responses":{"200":{"description":"ok","schema":{"$ref":"#/definitions/R"}}}}}},"definitions":{"R":{"type":"object","required":["ro","p_x","other"],"properties":{"ro":{"type":"string","readOnly":true}},"additionalProperties":{"type":"string","readOnly":true}},"S":{"type":"object","required":["ro2"],"properties":{"ro2":{"type":"integer","readOnly":true}}}}}`,
		// definitions whose required names are all matched by valid pattern properties standing next to
		// an invalid one: whether the invalid expression is reported must not depend on which pattern the
		// iteration meets first
		`{"swagger":"2.0","info":{"title":"t","version":"1"},"paths":{"/a":{"get":{"operationId":"g","responses":{"200":{"description":"ok"}}}}},"definitions":{"P":{"type":"object","required":["ab","ba"],"patternProperties":{"^a":{"type":"string"},"^(unclosed":{"type":"string"},"b$":{"type":"string"},"^b":{"type":"string"}}},"Q":{"type":"object","required":["x1"],"patternProperties":{"^x":{"type":"integer"},"[":{"type":"integer"},"1$":{"type":"integer"}}}}}`,
		`{"swagger":"2.0","info":{"title":"t","version":"1"},"paths":{"/a":{"parameters":[{"name":"body","in":"body","schema":{"$ref":"#/definitions/X"}}],"post":{"operationId":"p","responses":{"200":{"description":"ok","schema":{"$ref":"#/definitions/Y"}}}},"put":{"operationId":"u","responses":{"200":{"description":"ok"}}}}},"definitions":{"X":{"type":"object","properties":{"n":{"type":"integer"}}},"Y":{"type":"object","properties":{"x":{"$ref":"#/definitions/X"}}}}}`)
}

var reCycle = regexp.MustCompile(`definition "([^"]+)" has circular ancestry: \[([^\]]*)\]`)

// c10normalise renders a message set canonically: circular-ancestry messages name whichever member
// of the cycle was met first, which the property allows; they are rewritten to name the whole cycle.
func c10normalise(msgs []string, cycles map[string]string) []string {
	out := make([]string, 0, len(msgs))
	seen := map[string]bool{}
	for _, m := range msgs {
		if g := reCycle.FindStringSubmatch(m); g != nil {
			c, ok := cycles[g[1]]
			if !ok {
				c = "?" + g[1]
			}
			m = "definition <one of " + c + "> has circular ancestry"
		}
		if !seen[m] {
			seen[m] = true
			out = append(out, m)
		}
	}
	sort.Strings(out)
	return out
}

// cyclesOf maps each definition on an allOf-$ref cycle to the sorted member list of its cycle.
func cyclesOf(docText string) map[string]string {
	var d map[string]any
	json.Unmarshal([]byte(docText), &d)
	defs, _ := d["definitions"].(map[string]any)
	edges := map[string][]string{}
	for name, v := range defs {
		m, _ := v.(map[string]any)
		all, _ := m["allOf"].([]any)
		for _, a := range all {
			if am, ok := a.(map[string]any); ok {
				if r, ok := am["$ref"].(string); ok && strings.HasPrefix(r, "#/definitions/") {
					edges[name] = append(edges[name], strings.TrimPrefix(r, "#/definitions/"))
				}
			}
		}
	}
	reach := func(from string) map[string]bool {
		seen := map[string]bool{}
		stack := append([]string(nil), edges[from]...)
		for len(stack) > 0 {
			n := stack[len(stack)-1]
			stack = stack[:len(stack)-1]
			if seen[n] {
				continue
			}
			seen[n] = true
			stack = append(stack, edges[n]...)
		}
		return seen
	}
	out := map[string]string{}
	for name := range defs {
		r := reach(name)
		if !r[name] {
			continue
		}
		var members []string
		for o := range r {
			if reach(o)[name] {
				members = append(members, o)
			}
		}
		sort.Strings(members)
		out[name] = "{" + strings.Join(members, ",") + "}"
	}
	return out
}

// reorder renders the document with object members in ascending or descending key order.
func reorder(docText string, descending bool) string {
	var v any
	json.Unmarshal([]byte(docText), &v)
	var sb strings.Builder
	var w func(x any)
	w = func(x any) {
		switch t := x.(type) {
		case map[string]any:
			ks := make([]string, 0, len(t))
			for k := range t {
				ks = append(ks, k)
			}
			sort.Strings(ks)
			if descending {
				for i, j := 0, len(ks)-1; i < j; i, j = i+1, j-1 {
					ks[i], ks[j] = ks[j], ks[i]
				}
			}
			sb.WriteByte('{')
			for i, k := range ks {
				if i > 0 {
					sb.WriteByte(',')
				}
				kb, _ := json.Marshal(k)
				sb.Write(kb)
				sb.WriteByte(':')
				w(t[k])
			}
			sb.WriteByte('}')
		case []any:
			sb.WriteByte('[')
			for i, y := range t {
				if i > 0 {
					sb.WriteByte(',')
				}
				w(y)
			}
			sb.WriteByte(']')
		default:
			b, _ := json.Marshal(t)
			sb.Write(b)
		}
	}
	w(v)
	return sb.String()
}

type c10exec struct {
	Policy  int    `json:"map_policy"`
	Reverse bool   `json:"members_reversed"`
	Load    string `json:"load"`    // memory | json | yaml
	History string `json:"history"` // first | after-other | second-call | same-validator-twice
	Cont    bool   `json:"continue_on_errors"`
}

type c10out struct {
	Valid    bool
	Errors   []string
	Warnings []string
	// consistency of what the API returns
	WarnMismatch string
	SpecNil      bool // validate.Spec returned nil
	Panic        string
}

var c10fileSeq int
var c10files []string

func c10load(text string, mode string) (*loads.Document, error) {
	switch mode {
	case "memory":
		return loads.Analyzed(json.RawMessage(text), "")
	default:
		c10fileSeq++
		dir := os.Getenv("VERIF_WORK")
		if dir == "" {
			dir = os.TempDir()
		}
		p := filepath.Join(dir, fmt.Sprintf("c10-%d-%d.%s", os.Getpid(), c10fileSeq, mode))
		if err := os.WriteFile(p, []byte(text), 0o644); err != nil {
			return nil, err
		}
		c10files = append(c10files, p) // kept until the validation is over: references are resolved against the file
		return loads.Spec(p)
	}
}

func c10run(docText string, ex c10exec, cycles map[string]string) (o c10out) {
	defer func() {
		if r := recover(); r != nil {
			o.Panic = panicText(r)
			resetPools()
		}
		verifrt.SetMapPolicy(0)
		for _, f := range c10files {
			os.Remove(f)
		}
		c10files = c10files[:0]
	}()
	verifrt.SetMapPolicy(ex.Policy)
	text := reorder(docText, ex.Reverse)
	if ex.History == "after-other" {
		// other documents validated before: ones that take the rare paths of the rules (several
		// findings per rule, dangling references inside allOf, cycles) in both modes
		for _, o := range c10triggers {
			for _, cont := range []bool{true, false} {
				if other, err := loads.Analyzed(json.RawMessage(o), ""); err == nil {
					func() {
						defer func() { recover() }()
						sv := validate.NewSpecValidator(other.Schema(), strfmt.Default)
						sv.SetContinueOnErrors(cont)
						sv.Validate(other)
					}()
				}
			}
		}
	}
	doc, err := c10load(text, ex.Load)
	if err != nil {
		o.Panic = "document does not load: " + err.Error()
		return
	}
	sv := validate.NewSpecValidator(doc.Schema(), strfmt.Default)
	sv.SetContinueOnErrors(ex.Cont)
	if ex.History == "reused-validator" {
		// ONE validator object (it is bound to the Swagger schema, not to a document) validates the
		// trigger documents first: nothing it learnt about them may show in the document under test
		for _, o := range c10triggers {
			if other, err := loads.Analyzed(json.RawMessage(o), ""); err == nil {
				func() {
					defer func() {
						if recover() != nil {
							resetPools()
						}
					}()
					sv.Validate(other)
				}()
			}
		}
	}
	errs, warns := sv.Validate(doc)
	switch ex.History {
	case "second-call":
		sv2 := validate.NewSpecValidator(doc.Schema(), strfmt.Default)
		sv2.SetContinueOnErrors(ex.Cont)
		errs, warns = sv2.Validate(doc)
	case "same-validator-twice":
		errs, warns = sv.Validate(doc)
	}
	o.Valid = errs.IsValid()
	o.Errors = c10normalise(hx.SortedMsgs(errs.Errors), cycles)
	o.Warnings = c10normalise(hx.SortedMsgs(errs.Warnings), cycles)
	ret := c10normalise(hx.SortedMsgs(warns.Errors), cycles)
	if hx.JSON(ret) != hx.JSON(o.Warnings) {
		o.WarnMismatch = fmt.Sprintf("separately returned warnings %v, warnings attached to the main result %v", ret, o.Warnings)
	}
	if len(warns.Warnings) != 0 && hx.JSON(c10normalise(hx.SortedMsgs(warns.Warnings), cycles)) != hx.JSON(ret) {
		// the warnings result may carry its messages in either list; nothing else is demanded
		_ = ret
	}
	return o
}

func (o c10out) key() string {
	return hx.JSON([]any{o.Valid, o.Errors, o.Warnings, o.Panic})
}

func c10executions(quick bool, cont bool) []c10exec {
	var xs []c10exec
	for p := 0; p < 8; p++ {
		xs = append(xs, c10exec{p, false, "memory", "first", cont})
	}
	for _, p := range []int{0, 3, 5} {
		xs = append(xs, c10exec{p, true, "memory", "first", cont})
	}
	xs = append(xs,
		c10exec{0, false, "json", "first", cont}, c10exec{0, false, "yaml", "first", cont}, c10exec{2, true, "yaml", "first", cont},
		c10exec{0, false, "memory", "after-other", cont}, c10exec{0, false, "memory", "second-call", cont}, c10exec{0, false, "memory", "same-validator-twice", cont}, c10exec{0, false, "memory", "reused-validator", cont})
	if !quick {
		for p := 0; p < 8; p++ {
			xs = append(xs, c10exec{p, true, "memory", "first", cont}, c10exec{p, false, "json", "second-call", cont}, c10exec{p, p%2 == 0, "yaml", "after-other", cont})
		}
	}
	return xs
}

func c10(c *hx.Ctx) int {
	if c.Worker >= 0 {
		return c10worker(c)
	}
	if c.Quick() {
		c.Budget = 420 * second
	} else {
		c.Budget = 2400 * second
	}
	rep := c.RunWorkers(16, 16)
	cov := map[string]any{
		"states":                        rep.SetSize("outcomes"),
		"transitions":                   rep.Counters["validations"],
		"traces_validated_against_impl": rep.Counters["validations"],
		"documents":                     rep.Counters["documents"],
		"documents_with_findings":       rep.Counters["documents_with_findings"],
		"site_level_executions":         rep.Counters["site_executions"],
		"map_iteration_sites_deviated":  rep.SetSize("sites"),
		"rule":                          "per document and continue-on-errors setting, the executions {8 map-iteration policies} x {members as written, reversed} x {in-memory, .json file, .yaml file} x {first call, after another document, second call, same validator twice} (quick: 17 combinations; thorough: 41) and, in the thorough tier, every single deviation of the iteration start at each range site inside spec-level code (bound 1) must yield one outcome (verdict, error set, warning set; circular-ancestry messages normalised to name their cycle); errors(stop early) must be a subset of errors(continue); a document with warnings only is valid and Spec returns nil; separately returned warnings equal those attached to the main result",
	}
	if rep.SetSize("outcomes") < 2 && rep.HarnessErr == "" {
		rep.HarnessErr = "vacuous: fewer than 2 distinct outcomes"
	}
	return hx.Finish(c, "model_checking", rep, cov, []string{
		"\"another process\" is modelled by fresh pools plus a different map-iteration policy (what differs between processes for this code); maps larger than 8 entries are covered under one hash seed only",
		"documents are loaded from memory or from files the check has just written itself",
	})
}

func c10corpus(quick bool) []string {
	docs := append([]string(nil), c10multi...)
	// several operations (some without parameters, responses without headers, shared status codes)
	// each carrying a rejected default or example: whatever is carried over from one visited operation
	// to the next makes the outcome depend on the order in which operations are visited
	sites := c09pairSites()
	for _, pair := range [][2]int{{0, 1}, {1, 7}, {0, 2}, {2, 7}, {0, 4}} {
		docs = append(docs, c09pairDoc([]c09site{sites[pair[0]], sites[pair[1]]}, "default"), c09pairDoc([]c09site{sites[pair[0]], sites[pair[1]]}, "example"))
	}
	all := allCorpora(quick)
	if quick && len(all) > 30 {
		// every k-th document so that all providers are represented
		step := len(all) / 30
		var pick []string
		for i := 0; i < len(all); i += step {
			pick = append(pick, all[i])
		}
		all = pick
	}
	docs = append(docs, all...)
	docs = append(docs, c04specValid, c04specInvalid, c05docA, c05docB)
	return docs
}

func c10worker(c *hx.Ctx) int {
	rep := hx.NewReport()
	sets := hx.NewSetAdder()
	docs := c10corpus(c.Quick())
	for di, doc := range docs {
		if di%c.Workers != c.Worker {
			continue
		}
		if c.Expired() {
			rep.Exhaustive = false
			break
		}
		hx.AnnounceCase(fmt.Sprintf("document %d", di))
		rep.Inc("documents", 1)
		cycles := cyclesOf(doc)
		var byCont [2]c10out
		bad := false
		sigSeen := map[string]bool{}
		for ci, cont := range []bool{false, true} {
			var first *c10out
			var firstEx c10exec
			for _, ex := range c10executions(c.Quick(), cont) {
				resetPools()
				o := c10run(doc, ex, cycles)
				rep.Inc("validations", 1)
				if o.Panic != "" {
					rep.Inc("panics_left_to_C07", 1)
					continue
				}
				sets.Add("outcomes", o.key())
				if o.WarnMismatch != "" {
					rep.AddViolation(hx.Violation{Signature: "returned warnings differ from attached warnings: document " + hx.Hash(doc), What: fmt.Sprintf("document %s: %s", doc, o.WarnMismatch), Replay: map[string]any{"document": doc, "execution": ex}})
				}
				if len(o.Errors) == 0 && !o.Valid {
					rep.AddViolation(hx.Violation{Signature: "invalid without errors: document " + hx.Hash(doc), What: "document " + doc + " is reported invalid although it has no error", Replay: map[string]any{"document": doc, "execution": ex}})
				}
				if first == nil {
					oc := o
					first, firstEx = &oc, ex
					byCont[ci] = o
					continue
				}
				if o.key() != first.key() {
					bad = true
					sig, what := c10describe(doc, firstEx, *first, ex, o)
					// every execution is compared (no stop at the first difference: a difference that is
					// a known finding must not hide another one later in the list); one report per signature
					if !sigSeen[sig] {
						sigSeen[sig] = true
						rep.AddViolation(hx.Violation{Signature: sig, What: what,
							Replay: map[string]any{"document": doc, "execution_a": firstEx, "outcome_a": first, "execution_b": ex, "outcome_b": o}})
					}
				}
			}
		}
		if len(byCont[0].Errors)+len(byCont[0].Warnings) > 0 {
			rep.Inc("documents_with_findings", 1)
		}
		if !bad && byCont[0].Panic == "" && byCont[1].Panic == "" {
			// monotonicity
			on := map[string]bool{}
			for _, m := range byCont[1].Errors {
				on[m] = true
			}
			for _, m := range byCont[0].Errors {
				if !on[m] {
					rep.AddViolation(hx.Violation{Signature: "error lost with continue-on-errors: " + c10msgClass(m), What: fmt.Sprintf("document %s: the error %q is reported when stopping early but not with continue-on-errors", doc, m), Replay: map[string]any{"document": doc, "errors_off": byCont[0].Errors, "errors_on": byCont[1].Errors}})
					break
				}
			}
			// warnings alone never make a document invalid, and Spec() returns nil for it
			if len(byCont[1].Errors) == 0 && len(byCont[1].Warnings) > 0 {
				if d, err := loads.Analyzed(json.RawMessage(doc), ""); err == nil {
					if e := validate.Spec(d, strfmt.Default); e != nil {
						rep.AddViolation(hx.Violation{Signature: "warnings make Spec fail: " + hx.Hash(doc), What: "document " + doc + " has warnings only but validate.Spec returns an error: " + e.Error(), Replay: map[string]any{"document": doc}})
					}
				}
			}
		}
		// site-level deviations (thorough): bound 1 over range sites in spec-level code
		if !c.Quick() && !bad && di < len(c10multi)+40 {
			c10sites(doc, cycles, byCont, rep, sets)
		}
		if len(rep.Samples) < 2 {
			rep.Samples = append(rep.Samples, map[string]any{"document": doc[:minInt(len(doc), 300)], "executions_per_mode": len(c10executions(c.Quick(), false))})
		}
	}
	sets.Flush(rep)
	hx.EmitWorkerReport(rep)
	return 0
}

func minInt(a, b int) int {
	if a < b {
		return a
	}
	return b
}

var reQuoted = regexp.MustCompile(`"[^"]*"|\[[^\]]*\]`)

func c10msgClass(m string) string { return reQuoted.ReplaceAllString(m, "…") }

// c10describe builds a signature from the first message present on one side only.
func c10describe(doc string, a c10exec, oa c10out, b c10exec, ob c10out) (string, string) {
	only := func(x, y []string) string {
		in := map[string]bool{}
		for _, m := range y {
			in[m] = true
		}
		for _, m := range x {
			if !in[m] {
				return m
			}
		}
		return ""
	}
	diff := only(oa.Errors, ob.Errors)
	if diff == "" {
		diff = only(ob.Errors, oa.Errors)
	}
	kind := "error"
	if diff == "" {
		kind = "warning"
		diff = only(oa.Warnings, ob.Warnings)
		if diff == "" {
			diff = only(ob.Warnings, oa.Warnings)
		}
	}
	vary := []string{}
	if a.Policy != b.Policy {
		vary = append(vary, "map iteration order")
	}
	if a.Reverse != b.Reverse {
		vary = append(vary, "member order of the document")
	}
	if a.Load != b.Load {
		vary = append(vary, "load mode")
	}
	if a.History != b.History {
		vary = append(vary, "history")
	}
	sig := fmt.Sprintf("outcome depends on %s (continue-on-errors=%v): %s %s", strings.Join(vary, "+"), a.Cont, kind, c10msgClass(diff))
	if len(vary) == 1 && vary[0] == "history" {
		// one root cause shows through different messages from document to document: name the
		// circumstances instead of the message
		unresolved := false
		for _, m := range append(append([]string{}, oa.Errors...), ob.Errors...) {
			if strings.Contains(m, "could not resolve reference") || strings.Contains(m, "some references could not be resolved") {
				unresolved = true
			}
		}
		sig = fmt.Sprintf("validating the same loaded document again gives another %s set (history %s vs %s, document with unresolvable reference=%v, continue-on-errors=%v)", kind, a.History, b.History, unresolved, a.Cont)
	}
	what := fmt.Sprintf("document %s: outcome differs between %s and %s: %s %q is reported in one only", doc, hx.JSON(a), hx.JSON(b), kind, diff)
	return sig, what
}

// c10sites explores every single deviation of the iteration start at each range site inside the
// spec-level code.
func c10sites(doc string, cycles map[string]string, want [2]c10out, rep *hx.Report, sets *hx.SetAdder) {
	for ci, cont := range []bool{false, true} {
		ex := c10exec{0, false, "memory", "first", cont}
		// warm-up so that lazily built tables do not change the iteration trace between runs
		c10run(doc, ex, cycles)
		var out c10out
		run := func(prefix []int) verifrt.Trace {
			resetPools()
			d := &verifrt.Driver{Prefix: prefix, MaxPoints: 200000}
			d.Enabled[verifrt.KMap] = true
			verifrt.SetMapSites(true, "SpecValidator|defaultValidator|exampleValidator|paramHelper|responseHelper")
			verifrt.Install(d)
			out = c10run(doc, ex, cycles)
			t := d.TraceOf()
			verifrt.Install(nil)
			verifrt.SetMapSites(false, "")
			return t
		}
		// two dry runs must give the same iteration trace, else the site level is not explorable
		t1 := run(nil)
		t2 := run(nil)
		if len(t1.Points) != len(t2.Points) {
			rep.Inc("site_level_unstable_documents", 1)
			rep.Exhaustive = false
			continue
		}
		_, capped, err := verifrt.Explore(1, 3000, run, func(prefix []int, t verifrt.Trace) bool {
			rep.Inc("site_executions", 1)
			rep.Inc("validations", 1)
			for _, p := range t.Points {
				sets.Add("sites", p.Tag)
			}
			if out.Panic != "" {
				return true
			}
			if out.key() != want[ci].key() {
				site := ""
				for i, c := range prefix {
					if c != 0 && i < len(t.Points) {
						site = t.Points[i].Tag
					}
				}
				sig, what := c10describe(doc, ex, want[ci], ex, out)
				sig = strings.Replace(sig, "outcome depends on ", "outcome depends on the iteration order at "+site+" ", 1)
				rep.AddViolation(hx.Violation{Signature: sig, What: what + " (single deviation of the iteration start at " + site + ")",
					Replay: map[string]any{"document": doc, "continue": cont, "map_choices": prefix, "site": site}})
				return false
			}
			return true
		})
		if capped {
			rep.Exhaustive = false
		}
		if err != nil {
			rep.Inc("site_level_replay_diverged", 1)
			rep.Exhaustive = false
		}
	}
}
