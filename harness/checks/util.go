package checks

import "time"

type durationT = time.Duration

const second = time.Second
