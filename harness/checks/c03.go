package checks

import (
	"encoding/json"
	"fmt"
	"os"
	"os/exec"
	"path/filepath"
	"sort"
	"strings"

	"github.com/go-openapi/loads"
	"github.com/go-openapi/strfmt"
	"github.com/go-openapi/validate"

	"verif/harness/hx"
	"verif/harness/ref/swaggerrules"
)

// C03 — spec validation enforces exactly the documented extra rules.
//
// Enumerated: base documents x subsets of <= 1 (quick) / <= 2 (thorough) edits x continue-on-errors
// {off,on} x StrictPathParamUniqueness {on,off}. Oracle (ref/swaggerrules, recomputed from the edited
// document): every rule holds => zero errors; some rule broken => at least one error.

func init() { Registry["C03"] = c03 }

type c03cfg struct{ cont, strict bool }

// preferred configuration first (signatures prefer continue=off strict=on)
var c03cfgs = []c03cfg{{false, true}, {true, true}, {false, false}, {true, false}}

func onoff(b bool) string {
	if b {
		return "on"
	}
	return "off"
}

// c03validate runs the library once on a document text.
func c03validate(text string, cfg c03cfg) (out hx.Outcome, loadErr error) {
	defer func() {
		if r := recover(); r != nil {
			out = hx.Outcome{Panic: panicText(r)}
			resetPools()
		}
	}()
	doc, err := loads.Analyzed(json.RawMessage(text), "")
	if err != nil {
		return hx.Outcome{}, err
	}
	sv := validate.NewSpecValidator(doc.Schema(), strfmt.Default)
	sv.SetContinueOnErrors(cfg.cont)
	sv.Options.StrictPathParamUniqueness = cfg.strict
	errs, warns := sv.Validate(doc)
	out = hx.Outcome{Valid: errs.IsValid(), Errors: hx.SortedMsgs(errs.Errors)}
	if warns != nil {
		out.Warnings = hx.SortedMsgs(warns.Errors)
	}
	return out, nil
}

// c03judge compares the library with the reference on one document and configuration.
// kind: "" (agree), "false-error" (rules hold, errors reported), "missed" (rule broken, no error),
// "panic", "noload".
func c03judge(text string, cfg c03cfg) (kind string, broken []int, out hx.Outcome) {
	var doc map[string]any
	if err := json.Unmarshal([]byte(text), &doc); err != nil {
		return "noload", nil, hx.Outcome{Panic: err.Error()}
	}
	broken = swaggerrules.Broken(doc, cfg.strict)
	out, err := c03validate(text, cfg)
	switch {
	case err != nil:
		return "noload", broken, hx.Outcome{Panic: err.Error()}
	case out.Panic != "":
		return "panic", broken, out
	case len(broken) == 0 && len(out.Errors) > 0:
		return "false-error", broken, out
	case len(broken) > 0 && len(out.Errors) == 0:
		return "missed", broken, out
	}
	return "", broken, out
}

func c03editNames(all []c03edit, es []int) string {
	names := make([]string, len(es))
	for i, e := range es {
		names[i] = all[e].name
	}
	return "[" + strings.Join(names, ",") + "]"
}

// c03shrink minimises a failing (base, edits, cfg): fewer edits, then the smallest base, then the
// preferred configuration; the kind of failure is kept.
func c03shrink(bases []c03base, edits []c03edit, cs c03case, cfg c03cfg, kind string) (c03case, c03cfg) {
	fails := func(b int, es []int, g c03cfg) (string, bool) {
		t := c03text(c03apply(bases[b].doc, edits, es))
		k, _, _ := c03judge(t, g)
		return t, k == kind
	}
	// 1. drop edits
	for changed := true; changed; {
		changed = false
		for i := range cs.edits {
			es := append(append([]int{}, cs.edits[:i]...), cs.edits[i+1:]...)
			if t, ok := fails(cs.base, es, cfg); ok {
				cs.edits, cs.text, changed = es, t, true
				break
			}
		}
	}
	// 2. smallest base (by document size) on which the same edits still fail the same way
	order := make([]int, len(bases))
	for i := range order {
		order[i] = i
	}
	size := func(i int) int { return len(c03text(bases[i].doc)) }
	sort.SliceStable(order, func(a, b int) bool { return size(order[a]) < size(order[b]) })
	for _, b := range order {
		if size(b) >= size(cs.base) {
			break
		}
		if t, ok := fails(b, cs.edits, cfg); ok {
			cs.base, cs.text = b, t
			break
		}
	}
	// 3. preferred configuration
	for _, g := range c03cfgs {
		if g == cfg {
			break
		}
		if _, ok := fails(cs.base, cs.edits, g); ok {
			cfg = g
			break
		}
	}
	return cs, cfg
}

func c03violation(bases []c03base, edits []c03edit, cs c03case, cfg c03cfg) hx.Violation {
	kind, broken, out := c03judge(cs.text, cfg)
	var verdict string
	switch kind {
	case "false-error":
		verdict = fmt.Sprintf("rules hold but %d error(s)", len(out.Errors))
	case "missed":
		verdict = fmt.Sprintf("rule %v broken but no error", broken)
	default:
		verdict = "not reproduced (" + kind + ")"
	}
	sig := fmt.Sprintf("base=%s edits=%s continue=%s strict=%s: %s", bases[cs.base].name, c03editNames(edits, cs.edits), onoff(cfg.cont), onoff(cfg.strict), verdict)
	what := sig
	if len(out.Errors) > 0 {
		what += " — first: " + out.Errors[0]
	}
	var parsed any
	_ = json.Unmarshal([]byte(cs.text), &parsed)
	return hx.Violation{Signature: sig, What: what, Replay: map[string]any{
		"base": bases[cs.base].name, "edits": c03editNames(edits, cs.edits), "continue_on_errors": cfg.cont, "strict_path_param_uniqueness": cfg.strict,
		"document": parsed, "reference_broken_rules": broken, "library_errors": out.Errors, "library_warnings": out.Warnings,
	}}
}

const c03workers = 16

func c03label(bases []c03base, edits []c03edit, cs c03case) string {
	return bases[cs.base].name + " " + c03editNames(edits, cs.edits)
}

// c03crashHandler deals with a worker killed by a fatal runtime error inside the library (a stack
// overflow cannot be recovered): never-crash is C07's subject, so the worker's share is run again
// without the announced case, which is counted and noted.
func c03crashHandler(cases []c03case) func(c *hx.Ctx, wc hx.WorkerCrash) *hx.Report {
	return func(c *hx.Ctx, wc hx.WorkerCrash) *hx.Report {
		bases, edits := c03bases(), c03edits()
		worker := -1
		for idx, cs := range cases {
			if c03label(bases, edits, cs) == wc.LastCase {
				worker = idx % c03workers
				break
			}
		}
		if worker < 0 {
			return nil
		}
		skips := []string{wc.LastCase}
		for attempt := 0; attempt < 8; attempt++ {
			rep, last := c03rerun(c, worker, skips)
			if rep != nil {
				for _, s := range skips {
					rep.Notes = append(rep.Notes, "fatal crash of the worker process (C07's subject, case skipped): "+s)
				}
				return rep
			}
			if last == "" {
				return nil
			}
			for _, s := range skips {
				if s == last {
					return nil
				}
			}
			skips = append(skips, last)
		}
		return nil
	}
}

// c03rerun runs one worker again, skipping the given cases; it returns the worker's report, or nil and
// the case announced last when the process died again.
func c03rerun(c *hx.Ctx, worker int, skips []string) (*hx.Report, string) {
	dir, err := os.MkdirTemp(filepath.Join(hx.VerifDir, ".work"), "w")
	if err != nil {
		return nil, ""
	}
	defer os.RemoveAll(dir)
	self, _ := os.Executable()
	args := []string{c.ID, c.Tier, "--worker", fmt.Sprintf("%d/%d", worker, c03workers)}
	for _, s := range skips {
		args = append(args, "--skip", s)
	}
	cmd := exec.Command(self, args...)
	cmd.Dir = dir
	cmd.Env = append(os.Environ(), "GOMAXPROCS=1", "GOTRACEBACK=single")
	out, _ := cmd.Output() // a crash ends the output early; stderr is dropped
	var rep *hx.Report
	last := ""
	for _, line := range strings.Split(string(out), "\n") {
		if strings.HasPrefix(line, "@case ") {
			last = line[6:]
		} else if strings.HasPrefix(line, "@report ") {
			r := hx.NewReport()
			if json.Unmarshal([]byte(line[8:]), r) == nil {
				rep = r
			}
		}
	}
	return rep, last
}

func c03ruleKey(n int) string { return fmt.Sprintf("docs_breaking_rule_%02d", n) }

func c03(c *hx.Ctx) int {
	maxEdits := 1
	if !c.Quick() {
		maxEdits = 2
	}
	if len(c.Args) >= 1 && c.Args[0] == "--list" { // debugging aid: print the enumerated cases
		bases, edits := c03bases(), c03edits()
		for _, cs := range c03cases(maxEdits) {
			var doc map[string]any
			_ = json.Unmarshal([]byte(cs.text), &doc)
			fmt.Printf("%s %s broken=%v\n", bases[cs.base].name, c03editNames(edits, cs.edits), swaggerrules.Broken(doc, true))
		}
		return 0
	}
	if len(c.Args) >= 2 && c.Args[0] == "--show" { // debugging aid: --show <base> [edit ...]
		bases, edits := c03bases(), c03edits()
		for bi, b := range bases {
			if b.name != c.Args[1] {
				continue
			}
			var es []int
			for i, e := range edits {
				for _, want := range c.Args[2:] {
					if e.name == want {
						es = append(es, i)
					}
				}
			}
			text := c03text(c03apply(bases[bi].doc, edits, es))
			fmt.Println(text)
			for _, cfg := range c03cfgs {
				kind, broken, out := c03judge(text, cfg)
				fmt.Printf("continue=%s strict=%s kind=%q reference_broken=%v\n  errors=%q\n  warnings=%q\n  panic=%q\n", onoff(cfg.cont), onoff(cfg.strict), kind, broken, out.Errors, out.Warnings, out.Panic)
			}
		}
		return 0
	}
	if c.Worker >= 0 {
		return c03worker(c, maxEdits)
	}
	bases, edits := c03bases(), c03edits()
	for _, b := range bases {
		var doc map[string]any
		_ = json.Unmarshal([]byte(c03text(b.doc)), &doc)
		if br := swaggerrules.Broken(doc, true); len(br) > 0 {
			fmt.Printf("HARNESS-ERROR base document %s breaks rules %v according to the reference\n", b.name, br)
			return 2
		}
	}
	cases := c03cases(maxEdits)
	hx.CrashHandler = c03crashHandler(cases)
	rep := c.RunWorkers(c03workers, c03workers)

	perRule := map[string]any{}
	var vacuous []string
	for _, r := range swaggerrules.Rules {
		n := rep.SetSize(c03ruleKey(r.N))
		perRule[fmt.Sprintf("rule %02d (%s)", r.N, r.Name)] = n
		if n == 0 {
			vacuous = append(vacuous, fmt.Sprint(r.N))
		}
	}
	if rep.HarnessErr == "" && len(vacuous) > 0 {
		rep.HarnessErr = "vacuous: no enumerated document breaks rule(s) " + strings.Join(vacuous, ",")
	}
	if rep.HarnessErr == "" && (rep.SetSize("docs_all_rules_hold") == 0 || rep.SetSize("docs_some_rule_broken") == 0) {
		rep.HarnessErr = "vacuous: the reference gave only one verdict over the whole enumeration"
	}
	if rep.HarnessErr == "" && rep.Exhaustive && rep.Counters["documents_run"] != int64(len(cases)) {
		rep.HarnessErr = fmt.Sprintf("workers covered %d documents, the enumeration has %d", rep.Counters["documents_run"], len(cases))
	}
	cov := map[string]any{
		"evaluations":         rep.Counters["evaluations"],
		"distinct_nontrivial": rep.SetSize("docs_some_rule_broken"),
		"rule": fmt.Sprintf("%d base documents x all subsets of <= %d of %d edits (distinct edited documents by canonical JSON text: %d) x continue-on-errors {off,on} x StrictPathParamUniqueness {on,off}; "+
			"a document is non-trivial when ref/swaggerrules says that some rule is broken", len(bases), maxEdits, len(edits), len(cases)),
		"bases":                                  len(bases),
		"edits":                                  len(edits),
		"distinct_documents":                     len(cases),
		"distinct_documents_all_rules_hold":      rep.SetSize("docs_all_rules_hold"),
		"documents_breaking_each_rule":           perRule,
		"runs_rules_hold_and_no_error":           rep.Counters["runs_rules_hold_and_no_error"],
		"runs_rule_broken_and_error":             rep.Counters["runs_rule_broken_and_error"],
		"runs_disagreeing":                       rep.Counters["runs_disagreeing"],
		"panics_skipped":                         rep.Counters["panics_skipped"],
		"fatal_crashes_skipped":                  rep.Counters["fatal_crashes_skipped"],
		"distinct_minimal_disagreements":         len(rep.Violations),
		"library_warnings_on_accepted_documents": rep.Counters["library_warnings_on_accepted_documents"],
	}
	return hx.Finish(c, "exploration", rep, cov, []string{
		"ref/swaggerrules (one function per documented rule, written from the Swagger 2.0 specification) is the oracle; it is part of the trusted base",
		"only documents in the range of the grammar: local references, no defaults/examples (C09), every operation has a response, required-edits on top-level definitions only",
		"with StrictPathParamUniqueness off, overlapping paths are not a broken rule (zero errors demanded when nothing else is broken)",
		"no message text is demanded; a panic is counted and skipped (C07)",
	})
}

func c03worker(c *hx.Ctx, maxEdits int) int {
	rep := hx.NewReport()
	sets := hx.NewSetAdder()
	bases, edits := c03bases(), c03edits()
	cases := c03cases(maxEdits)
	shrunk := map[string]bool{}
	skip := map[string]bool{} // cases that killed an earlier incarnation of this worker
	for i := 0; i+1 < len(c.Args); i++ {
		if c.Args[i] == "--skip" {
			skip[c.Args[i+1]] = true
		}
	}
	for idx, cs := range cases {
		if idx%c.Workers != c.Worker {
			continue
		}
		if skip[c03label(bases, edits, cs)] {
			rep.Inc("documents_run", 1)
			rep.Inc("fatal_crashes_skipped", 1)
			continue
		}
		if c.Expired() {
			rep.Exhaustive = false
			break
		}
		label := c03label(bases, edits, cs)
		hx.AnnounceCase(label)
		rep.Inc("documents_run", 1)
		var doc map[string]any
		_ = json.Unmarshal([]byte(cs.text), &doc)
		brokenStrict := swaggerrules.Broken(doc, true)
		if len(brokenStrict) == 0 {
			sets.Add("docs_all_rules_hold", cs.text)
		} else {
			sets.Add("docs_some_rule_broken", cs.text)
			for _, n := range brokenStrict {
				sets.Add(c03ruleKey(n), cs.text)
			}
		}
		if c.Worker < 3 && len(rep.Samples) < 1 && len(cs.edits) > 0 && len(brokenStrict) > 0 {
			s := map[string]any{"base": bases[cs.base].name, "edits": c03editNames(edits, cs.edits), "reference_broken_rules": brokenStrict}
			if len(cs.text) < 600 {
				s["document"] = doc
			}
			rep.Samples = append(rep.Samples, s)
		}
		for _, cfg := range c03cfgs {
			kind, _, out := c03judge(cs.text, cfg)
			rep.Inc("evaluations", 1)
			switch kind {
			case "":
				if len(out.Errors) == 0 {
					rep.Inc("runs_rules_hold_and_no_error", 1)
					if len(out.Warnings) > 0 {
						rep.Inc("library_warnings_on_accepted_documents", 1)
					}
				} else {
					rep.Inc("runs_rule_broken_and_error", 1)
				}
				continue
			case "panic":
				rep.Inc("panics_skipped", 1)
				rep.Notes = append(rep.Notes, fmt.Sprintf("panic (C07's subject, case skipped): %s continue=%s strict=%s: %s", label, onoff(cfg.cont), onoff(cfg.strict), out.Panic))
				continue
			case "noload":
				rep.HarnessErr = "generated document does not load: " + label + ": " + out.Panic
				continue
			}
			rep.Inc("runs_disagreeing", 1)
			if len(cs.edits) == 0 {
				// a base document must be accepted: this is the generator's fault unless shown otherwise
				rep.HarnessErr = fmt.Sprintf("base document %s is rejected (continue=%s strict=%s): %v", bases[cs.base].name, onoff(cfg.cont), onoff(cfg.strict), out.Errors)
				continue
			}
			key := fmt.Sprintf("%d %v %s", cs.base, cs.edits, kind)
			if shrunk[key] {
				continue
			}
			shrunk[key] = true
			ms, mcfg := c03shrink(bases, edits, cs, cfg, kind)
			v := c03violation(bases, edits, ms, mcfg)
			if strings.Contains(v.Signature, "not reproduced") {
				rep.HarnessErr = "violation does not reproduce: " + v.Signature
				continue
			}
			rep.AddViolation(v)
		}
	}
	sets.Flush(rep)
	hx.EmitWorkerReport(rep)
	return 0
}
