package checks

import (
	"fmt"
	"strings"

	"github.com/go-openapi/strfmt"
	"github.com/go-openapi/validate"

	"verif/harness/gen"
	"verif/harness/hx"
	"verif/harness/shrink"
)

// C06 — schema validation always terminates with a verdict and never panics.

func init() { Registry["C06"] = c06 }

// Degenerate atoms (decodable, references resolve, but useless or ill-formed constraints).
var c06degenerate = []string{
	`{"required":[]}`, `{"items":[]}`, `{"enum":[]}`, `{"minLength":-1}`, `{"maxLength":-1}`, `{"minItems":-1}`, `{"maxItems":-1}`,
	`{"maxItems":9223372036854775807}`, `{"minProperties":-1}`, `{"maxProperties":-1}`, `{"maxLength":9223372036854775807}`,
	`{"multipleOf":0}`, `{"multipleOf":-1}`, `{"multipleOf":1e-300}`, `{"multipleOf":1e308}`, `{"maximum":1e308}`, `{"minimum":-1e308}`,
	`{"pattern":"("}`, `{"pattern":"a{2,1}"}`, `{"patternProperties":{"(":{}}}`, `{"patternProperties":{"(":{"type":"integer"}},"additionalProperties":false}`,
	`{"type":"foo"}`, `{"type":[]}`, `{"type":["foo","integer"]}`, `{"type":"file"}`,
	`{"format":"date"}`, `{"format":"no-such-format"}`, `{"format":"int32"}`, `{"type":"integer","format":"int32"}`, `{"type":"integer","format":"uint64"}`,
	`{"type":"number","format":"float"}`, `{"type":"string","format":"byte"}`, `{"type":"integer","format":"date"}`,
	`{"exclusiveMaximum":true}`, `{"exclusiveMinimum":true}`, `{"default":1}`, `{"default":null}`,
	`{"additionalItems":{"type":"integer"}}`, `{"additionalItems":false}`, `{"dependencies":{"a":[]}}`, `{"dependencies":{}}`,
	`{"allOf":[]}`, `{"anyOf":[]}`, `{"oneOf":[]}`, `{"properties":{}}`, `{"patternProperties":{}}`,
	`{"items":{"items":{"items":{}}}}`, `{"items":{"$ref":"#"}}`, `{"properties":{"a":{"$ref":"#"}}}`, `{"additionalProperties":{"$ref":"#"}}`,
	`{"not":{"$ref":"#/definitions/pos"}}`, `{"enum":[{"a":[1,{"b":null}]}]}`, `{"uniqueItems":false}`, `{"required":["a","a"]}`,
	`{"x-nullable":true}`, `{"type":"string","x-nullable":true}`, `{"readOnly":true}`, `{"discriminator":"a"}`,
}

func c06deep(open, close string, n int) string {
	return strings.Repeat(open, n) + strings.Repeat(close, n)
}

func c06instances() []string {
	out := append([]string(nil), gen.Instances...)
	out = append(out, `1e308`, `5e-324`, `-0`, `-1e308`, `0.1`, `123456789012345678`,
		c06deep("[", "]", 200), strings.Repeat(`{"a":`, 200)+`1`+strings.Repeat(`}`, 200), strings.Repeat(`[{"a":`, 60)+`1`+strings.Repeat(`}]`, 60),
		`[1e308,5e-324,"x",null,{"a":[]}]`, `{"a":1e308,"b":{"a":"aa"}}`)
	return out
}

// only produced with UseNumber (cannot be a float64)
var c06numberOnly = []string{`1e400`, `-1e400`, `[1e400]`, `{"a":1e400}`, `12345678901234567890`, `1.5`, `2`, `[1.5,2]`, `{"a":2}`}

type c06mode struct {
	name string
	opts []validate.Option
	shot bool // one-shot entry point
}

func c06modes(all bool) []c06mode {
	ms := []c06mode{{name: "AgainstSchema", shot: true}}
	for bits := 0; bits < 16; bits++ {
		if !all && bits != 0 && bits != 15 {
			continue
		}
		m := c06mode{name: fmt.Sprintf("validator(arraytype=%v,mustitems=%v,recycle=%v,skipschemata=%v)", bits&1 != 0, bits&2 != 0, bits&4 != 0, bits&8 != 0)}
		m.opts = []validate.Option{validate.EnableObjectArrayTypeCheck(bits&1 != 0), validate.EnableArrayMustHaveItemsCheck(bits&2 != 0),
			validate.WithRecycleValidators(bits&4 != 0), validate.WithSkipSchemataResult(bits&8 != 0)}
		ms = append(ms, m)
	}
	return ms
}

// c06run returns "" when the call returns normally with a result, else a description.
func c06run(schemaText, instText string, useNumber bool, m c06mode) string {
	var inst any
	if useNumber {
		inst = parseInstanceNumber(instText)
	} else {
		inst = parseInstance(instText)
	}
	if m.shot {
		o := againstSchema(schemaText, inst, strfmt.Default)
		if o.Panic != "" {
			return "panic: " + o.Panic
		}
		return ""
	}
	o, res := validatorObject(schemaText, inst, "", strfmt.Default, m.opts...)
	if o.Panic != "" {
		return "panic: " + o.Panic
	}
	if res == nil {
		return "nil result"
	}
	return ""
}

func c06panicClass(d string) string {
	// keep the stable part of a panic text (drop addresses, values)
	d = strings.TrimPrefix(d, "panic: ")
	for _, cut := range []string{" 0x", "[recovered]"} {
		if i := strings.Index(d, cut); i > 0 {
			d = d[:i]
		}
	}
	if len(d) > 120 {
		d = d[:120]
	}
	return d
}

func c06(c *hx.Ctx) int {
	if c.Worker >= 0 {
		return c06worker(c)
	}
	if c.Quick() {
		c.Budget = 200 * second
	} else {
		c.Budget = 1500 * second
	}
	hx.CrashHandler = func(c *hx.Ctx, wc hx.WorkerCrash) *hx.Report {
		r := hx.NewReport()
		first := wc.Output
		if i := strings.Index(first, "\n"); i > 0 {
			first = first[:i]
		}
		r.AddViolation(hx.Violation{
			Signature: "process died or stalled: " + wc.LastCase,
			What:      "validating schema " + wc.LastCase + " killed or stalled the process: " + first + " (" + wc.Exit + ")",
			Replay:    map[string]any{"schema": wc.LastCase, "stderr_head": wc.Output, "exit": wc.Exit},
		})
		return r
	}
	rep := c.RunWorkers(16, 16)
	cov := map[string]any{
		"evaluations":         rep.Counters["calls"],
		"distinct_nontrivial": rep.Counters["nontrivial_pairs"],
		"schemas":             rep.Counters["schemas"],
		"rule": "all conjunctions of <= 2 atoms (quick; thorough adds all triples over base+degenerate atoms) from the regular and the degenerate alphabets (empty lists, negative/huge sizes, multipleOf <= 0, invalid patterns, unknown types/formats, self references) x instances incl. extreme numbers, 200-deep nesting and json.Number carriers x AgainstSchema and the option combinations of NewSchemaValidator; a pair is non-trivial when the schema contains a degenerate atom or the instance is an extreme/json.Number one; all pairs distinct by construction",
	}
	return hx.Finish(c, "exploration", rep, cov, []string{
		"every generated schema decodes and its references resolve, so no panic at all is acceptable",
		"non-termination is detected as a worker that makes no progress for 300 s (never observed on the unchanged tree)",
	})
}

func c06worker(c *hx.Ctx) int {
	rep := hx.NewReport()
	regular := gen.Atoms()
	deg := c06degenerate
	insts := c06instances()
	reported := map[string]bool{}
	ord := 0
	oneShotOnly := false
	doSchema := func(schema string, degenerate bool, allModes bool) {
		ord++
		if (ord-1)%c.Workers != c.Worker {
			return
		}
		if c.Expired() {
			rep.Exhaustive = false
			return
		}
		hx.AnnounceCase(schema)
		rep.Inc("schemas", 1)
		modes := c06modes(allModes)
		if oneShotOnly {
			modes = modes[:1]
		}
		try := func(it string, num bool, extreme bool) {
			for _, m := range modes {
				rep.Inc("calls", 1)
				d := c06run(schema, it, num, m)
				if d == "" {
					continue
				}
				key := c06panicClass(d) + "|" + schema + "|" + it
				if reported[key] {
					continue
				}
				reported[key] = true
				ms, mi := c06shrink(schema, it, num, m, d)
				carrier := "float64 numbers"
				if num {
					carrier = "json.Number numbers"
				}
				rep.AddViolation(hx.Violation{
					Signature: fmt.Sprintf("%s ⊢ %s (%s): %s", ms, mi, carrier, c06panicClass(d)),
					What:      fmt.Sprintf("schema %s, instance %s (%s), %s: %s", ms, mi, carrier, m.name, d),
					Replay:    map[string]any{"schema": ms, "instance": mi, "use_number": num, "mode": m.name, "found_as_schema": schema, "found_as_instance": it},
				})
				break
			}
			if degenerate || extreme || num {
				rep.Inc("nontrivial_pairs", 1)
			}
		}
		for i, it := range insts {
			try(it, false, i >= len(gen.Instances))
			if strings.ContainsAny(it, "0123456789") && len(it) < 100 {
				try(it, true, false)
			}
		}
		for _, it := range c06numberOnly {
			try(it, true, true)
		}
		if len(rep.Samples) < 3 && degenerate {
			rep.Samples = append(rep.Samples, map[string]any{"schema": schema, "instance": insts[len(insts)-1][:20] + "…", "modes": len(modes)})
		}
	}
	// singles: all option combinations
	for _, a := range regular {
		doSchema(gen.Merge(a), false, true)
	}
	for _, a := range deg {
		doSchema(gen.Merge(a), true, true)
	}
	// pairs
	all := append(append([]string(nil), regular...), deg...)
	for i := 1; i < len(all); i++ {
		for j := i + 1; j < len(all); j++ {
			if s := gen.Merge(all[i], all[j]); s != "" {
				// quick: regular x regular pairs go through the one-shot entry point only
				oneShotOnly = c.Quick() && i < len(regular) && j < len(regular)
				doSchema(s, j >= len(regular), false)
				oneShotOnly = false
			}
		}
	}
	if !c.Quick() {
		small := append(append([]string(nil), gen.BaseAtoms[1:]...), deg...)
		for i := 0; i < len(small); i++ {
			for j := i + 1; j < len(small); j++ {
				if gen.Merge(small[i], small[j]) == "" {
					continue
				}
				for k := j + 1; k < len(small); k++ {
					if s := gen.Merge(small[i], small[j], small[k]); s != "" {
						doSchema(s, true, false)
					}
				}
			}
		}
	}
	hx.EmitWorkerReport(rep)
	return 0
}

func c06shrink(schema, inst string, num bool, m c06mode, d string) (string, string) {
	class := c06panicClass(d)
	s0 := shrink.Parse(schema).(map[string]any)
	i0 := shrink.Parse(inst)
	if len(inst) > 2000 {
		return schema, inst[:40] + "…(deep)"
	}
	pred := func(s map[string]any, i any) bool {
		return c06panicClass(c06run(shrink.Text(s), shrink.Text(i), num, m)) == class
	}
	ms, mi := shrink.Pair(s0, i0, pred, 2000)
	return shrink.Text(ms), shrink.Text(mi)
}
