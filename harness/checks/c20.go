package checks

import (
	"errors"
	"fmt"
	"reflect"
	"strings"
	"unsafe"

	"github.com/go-openapi/validate"
	"github.com/go-openapi/validate/verifrt"

	"verif/harness/hx"
)

// C20 — results combine as ordered sets with additive counts.
//
// Explicit-state breadth-first search. A state is reached by an operation path that is replayed on
// fresh real objects (live objects cannot be cloned); the successor is path + one operation. After
// every transition every slot of the real world is compared with a plain ordered-set model.

func init() { Registry["C20"] = c20 }

var c20msgs = []error{errors.New("m1"), errors.New("m2"), fmt.Errorf("m%d", 1), nil, errors.New("m3"), errors.New("m4"), errors.New("m5")}

// argument lists over message indices (3 = nil)
// the three-message list leaves spare capacity behind (append grows 1, 2, 4): the situation in which
// two results sharing a backing array overwrite each other's next message
var c20args = [][]int{{0}, {1}, {2}, {3}, {0, 1}, {1, 0}, {0, 2}, {3, 1}, {1, 3, 1}, {5}, {6}, {0, 1, 4}}

type c20op struct {
	K       string // adde addw merge mergee mergew inc reborrow mergenil merge2 mergee2 mergew2
	A, B, C int
}

func (o c20op) String() string { return fmt.Sprintf("%s(%d,%d,%d)", o.K, o.A, o.B, o.C) }

type c20slot struct {
	Live   bool
	Pooled bool
	E, W   []string
	N      int
}

type c20model [3]c20slot

func addSet(set []string, items ...string) []string {
	for _, it := range items {
		found := false
		for _, s := range set {
			if s == it {
				found = true
				break
			}
		}
		if !found {
			set = append(set, it)
		}
	}
	return set
}

func c20msgTexts(idx []int) []string {
	var out []string
	for _, i := range idx {
		if c20msgs[i] != nil {
			out = append(out, c20msgs[i].Error())
		}
	}
	return out
}

func c20errs(idx []int) []error {
	out := make([]error, 0, len(idx))
	for _, i := range idx {
		out = append(out, c20msgs[i])
	}
	return out
}

// enabled says whether op is within the caller contract in model state m.
func (m *c20model) enabled(o c20op) bool {
	switch o.K {
	case "adde", "addw", "inc":
		return m[o.A].Live
	case "merge", "mergee", "mergew":
		if !m[o.A].Live || !m[o.B].Live {
			return false
		}
		if o.A == o.B && m[o.A].Pooled {
			return false // merging a pooled result into itself redeems a live object: caller misuse
		}
		return true
	case "merge2", "mergee2", "mergew2":
		if !m[o.A].Live || !m[o.B].Live || !m[o.C].Live || o.A == o.B || o.A == o.C {
			return false
		}
		if o.B == o.C && m[o.B].Pooled {
			return false
		}
		return true
	case "mergenil":
		return m[o.A].Live
	case "reborrow":
		return !m[o.A].Live
	}
	return false
}

func (m *c20model) apply(o c20op) {
	cp := func(s []string) []string { return append([]string(nil), s...) }
	mergeInto := func(a, b int, kind string) {
		be, bw, bn := cp(m[b].E), cp(m[b].W), m[b].N
		switch kind {
		case "merge":
			m[a].E = addSet(m[a].E, be...)
			m[a].W = addSet(m[a].W, bw...)
		case "mergee":
			m[a].E = addSet(m[a].E, be...)
			m[a].E = addSet(m[a].E, bw...)
		case "mergew":
			m[a].W = addSet(m[a].W, be...)
			m[a].W = addSet(m[a].W, bw...)
		}
		m[a].N += bn
		if m[b].Pooled {
			m[b].Live = false // redeemed by the merge
		}
	}
	switch o.K {
	case "adde":
		m[o.A].E = addSet(m[o.A].E, c20msgTexts(c20args[o.B])...)
	case "addw":
		m[o.A].W = addSet(m[o.A].W, c20msgTexts(c20args[o.B])...)
	case "inc":
		m[o.A].N++
	case "merge", "mergee", "mergew":
		mergeInto(o.A, o.B, o.K)
	case "merge2":
		mergeInto(o.A, o.B, "merge")
		if m[o.C].Live {
			mergeInto(o.A, o.C, "merge")
		}
	case "mergee2", "mergew2":
		// several operands with nil ones among them: a nil operand contributes nothing, the others
		// are merged in order
		mergeInto(o.A, o.B, o.K[:6])
		if m[o.C].Live {
			mergeInto(o.A, o.C, o.K[:6])
		}
	case "mergenil":
	case "reborrow":
		m[o.A] = c20slot{Live: true, Pooled: true}
	}
}

type c20world struct{ r [3]*validate.Result }

func c20newWorld() (*c20world, *c20model) {
	validate.VerifResetPools()
	verifrt.DropAllPools()
	w := &c20world{}
	w.r[0] = new(validate.Result)
	w.r[1] = &validate.Result{}
	w.r[2] = validate.VerifBorrowResult()
	m := &c20model{{Live: true}, {Live: true}, {Live: true, Pooled: true}}
	return w, m
}

func (w *c20world) apply(o c20op) {
	switch o.K {
	case "adde":
		w.r[o.A].AddErrors(c20errs(c20args[o.B])...)
	case "addw":
		w.r[o.A].AddWarnings(c20errs(c20args[o.B])...)
	case "inc":
		w.r[o.A].Inc()
	case "merge":
		w.r[o.A].Merge(w.r[o.B])
	case "mergee":
		w.r[o.A].MergeAsErrors(w.r[o.B])
	case "mergew":
		w.r[o.A].MergeAsWarnings(w.r[o.B])
	case "merge2":
		w.r[o.A].Merge(w.r[o.B], w.r[o.C])
	case "mergee2":
		w.r[o.A].MergeAsErrors(w.r[o.B], nil, w.r[o.C])
	case "mergew2":
		w.r[o.A].MergeAsWarnings(nil, w.r[o.B], w.r[o.C])
	case "mergenil":
		switch o.B {
		case 0:
			w.r[o.A].Merge(nil)
		case 1:
			w.r[o.A].MergeAsErrors(nil, nil)
		case 2:
			w.r[o.A].MergeAsWarnings(nil)
		}
	case "reborrow":
		w.r[o.A] = validate.VerifBorrowResult()
	}
}

func msgList(errs []error) ([]string, bool) {
	out := make([]string, 0, len(errs))
	for _, e := range errs {
		if e == nil {
			return nil, false
		}
		out = append(out, e.Error())
	}
	return out, true
}

// compare returns "" when the real world equals the model on every live slot.
func (w *c20world) compare(m *c20model) string {
	for i := 0; i < 3; i++ {
		if !m[i].Live {
			continue
		}
		r := w.r[i]
		e, ok := msgList(r.Errors)
		if !ok {
			return fmt.Sprintf("slot %d holds a nil error", i)
		}
		wn, ok := msgList(r.Warnings)
		if !ok {
			return fmt.Sprintf("slot %d holds a nil warning", i)
		}
		if !eqStrs(e, m[i].E) {
			return fmt.Sprintf("slot %d errors %v, model %v", i, e, m[i].E)
		}
		if !eqStrs(wn, m[i].W) {
			return fmt.Sprintf("slot %d warnings %v, model %v", i, wn, m[i].W)
		}
		if r.MatchCount != m[i].N {
			return fmt.Sprintf("slot %d match count %d, model %d", i, r.MatchCount, m[i].N)
		}
		if r.IsValid() != (len(m[i].E) == 0) || r.HasErrors() != (len(m[i].E) > 0) ||
			r.HasWarnings() != (len(m[i].W) > 0) || r.HasErrorsOrWarnings() != (len(m[i].E)+len(m[i].W) > 0) {
			return fmt.Sprintf("slot %d validity queries disagree with content", i)
		}
		if (r.AsError() == nil) != (len(m[i].E) == 0) {
			return fmt.Sprintf("slot %d AsError disagrees with content", i)
		}
	}
	return ""
}

func eqStrs(a, b []string) bool {
	if len(a) != len(b) {
		return false
	}
	for i := range a {
		if a[i] != b[i] {
			return false
		}
	}
	return true
}

// hidden returns a fingerprint of implementation state the model does not have: which slots share
// a backing array for Errors/Warnings. It is part of the state key so that states differing only in
// aliasing are not merged (merging them could hide a later corruption).
func (w *c20world) hidden(m *c20model) string {
	var sb strings.Builder
	base := func(s []error) uintptr {
		if cap(s) == 0 {
			return 0
		}
		return uintptr(unsafe.Pointer(unsafe.SliceData(s)))
	}
	for i := 0; i < 3; i++ {
		for j := 0; j < 3; j++ {
			if !m[i].Live || !m[j].Live {
				continue
			}
			if i < j {
				if b := base(w.r[i].Errors); b != 0 && b == base(w.r[j].Errors) {
					fmt.Fprintf(&sb, "E%d%d", i, j)
				}
				if b := base(w.r[i].Warnings); b != 0 && b == base(w.r[j].Warnings) {
					fmt.Fprintf(&sb, "W%d%d", i, j)
				}
			}
			if b := base(w.r[i].Errors); b != 0 && b == base(w.r[j].Warnings) {
				fmt.Fprintf(&sb, "X%d%d", i, j)
			}
		}
	}
	// slack capacity lets an append write into shared memory without reallocating
	for i := 0; i < 3; i++ {
		if m[i].Live && (cap(w.r[i].Errors) > len(w.r[i].Errors) || cap(w.r[i].Warnings) > len(w.r[i].Warnings)) {
			fmt.Fprintf(&sb, "s%d", i)
		}
	}
	return sb.String()
}

func c20ops() []c20op {
	var ops []c20op
	for a := 0; a < 3; a++ {
		for b := range c20args {
			ops = append(ops, c20op{"adde", a, b, 0}, c20op{"addw", a, b, 0})
		}
		ops = append(ops, c20op{"inc", a, 0, 0}, c20op{"reborrow", a, 0, 0})
		for b := 0; b < 3; b++ {
			ops = append(ops, c20op{"merge", a, b, 0}, c20op{"mergee", a, b, 0}, c20op{"mergew", a, b, 0})
			if a == 0 {
				ops = append(ops, c20op{"mergenil", b, a, 0}, c20op{"mergenil", b, 1, 0}, c20op{"mergenil", b, 2, 0})
			}
			for cc := 0; cc < 3; cc++ {
				ops = append(ops, c20op{"merge2", a, b, cc}, c20op{"mergee2", a, b, cc}, c20op{"mergew2", a, b, cc})
			}
		}
	}
	return ops
}

func c20nilQueries() string {
	var r *validate.Result
	bad := ""
	func() {
		defer func() {
			if x := recover(); x != nil {
				bad = fmt.Sprintf("query on nil result panics: %v", x)
			}
		}()
		if !r.IsValid() || r.HasErrors() || r.HasWarnings() || r.HasErrorsOrWarnings() {
			bad = "nil result is not reported as valid and empty"
		}
	}()
	return bad
}

func c20(c *hx.Ctx) int {
	depth := 4
	// the state set lives in one process: the thorough tier goes one level deeper and stops (with
	// exhaustive:false and the deepest completed level reported) at a fixed number of states rather than
	// at whatever the machine's memory allows
	maxStates := 1 << 30
	if !c.Quick() {
		depth = 6
		maxStates = 4000000
		if c.Budget == 0 {
			c.Budget = 1500 * second
		}
	}
	rep := hx.NewReport()
	ops := c20ops()
	type node struct {
		path []c20op
	}
	if s := c20nilQueries(); s != "" {
		rep.AddViolation(hx.Violation{Signature: "nilquery", What: s, Replay: "nil-receiver queries"})
	}
	seen := map[string]bool{}
	w0, m0 := c20newWorld()
	seen[hx.Hash(hx.JSON(m0)+w0.hidden(m0))] = true
	frontier := []node{{nil}}
	states, transitions := 1, 0
	outcomes := hx.NewSetAdder()
	maxDepth, fullDepth := 0, 0
	var sample []string
	sampleDepth := 0
	for d := 1; d <= depth && len(frontier) > 0; d++ {
		var next []node
		for _, nd := range frontier {
			if c.Expired() || states > maxStates {
				rep.Exhaustive = false
				break
			}
			for _, op := range ops {
				// replay the path on fresh real objects, then one more op
				w, m := c20newWorld()
				for _, p := range nd.path {
					w.apply(p)
					m.apply(p)
				}
				if !m.enabled(op) {
					continue
				}
				var pan any
				func() {
					defer func() { pan = recover() }()
					w.apply(op)
				}()
				m.apply(op)
				transitions++
				diff := ""
				if pan != nil {
					diff = fmt.Sprintf("panic: %v", pan)
				} else {
					diff = w.compare(m)
				}
				if diff != "" {
					path := append(append([]c20op(nil), nd.path...), op)
					// shrink: drop operations while it still fails the same way
					path = c20shrink(path)
					var ps []string
					for _, p := range path {
						ps = append(ps, p.String())
					}
					rep.AddViolation(hx.Violation{
						Signature: strings.Join(ps, ";"),
						What:      "result operations " + strings.Join(ps, ";") + ": " + diff,
						Replay:    map[string]any{"ops": path, "diff": diff},
					})
					continue
				}
				key := hx.Hash(hx.JSON(m) + w.hidden(m))
				outcomes.Add("slotcontents", hx.JSON(m[op.A]))
				if !seen[key] {
					seen[key] = true
					states++
					maxDepth = d
					np := append(append([]c20op(nil), nd.path...), op)
					next = append(next, node{np})
					if d > sampleDepth {
						sample, sampleDepth = nil, d
					}
					if len(sample) < 5 {
						var ps []string
						for _, p := range np {
							ps = append(ps, p.String())
						}
						sample = append(sample, strings.Join(ps, ";")+" => "+hx.JSON(m))
					}
				}
			}
		}
		frontier = next
		if rep.Exhaustive {
			fullDepth = d
		}
		if len(rep.Violations) > 0 {
			// deeper failures are consequences of the shortest ones: stop at the first failing depth
			rep.Exhaustive = false
			break
		}
	}
	for _, s := range sample {
		rep.Samples = append(rep.Samples, s)
	}
	cov := map[string]any{
		"states": states, "transitions": transitions, "traces_validated_against_impl": transitions,
		"depth_completed": fullDepth, "deepest_state_seen": maxDepth, "depth_bound": depth, "state_cap": maxStates, "operations_in_alphabet": len(ops),
		"distinct_slot_contents": outcomes.Len("slotcontents"),
		"rule": "BFS over op sequences on 3 result slots (plain, plain, pooled); state = model contents + aliasing fingerprint of the real objects; every transition executed on the real Result type and compared with an ordered-set model",
	}
	return hx.Finish(c, "model_checking", rep, cov, []string{
		"messages range over {m1..m5, a second error value with text m1, nil}; argument lists of 1-3 messages",
		"a pooled result is not used after the merge that redeemed it (caller contract), it is re-borrowed instead",
	})
}

func c20fails(path []c20op) bool {
	w, m := c20newWorld()
	for _, p := range path {
		if !m.enabled(p) {
			return false
		}
		bad := false
		func() {
			defer func() {
				if recover() != nil {
					bad = true
				}
			}()
			w.apply(p)
		}()
		m.apply(p)
		if bad || w.compare(m) != "" {
			return true
		}
	}
	return false
}

func c20shrink(path []c20op) []c20op {
	for changed := true; changed; {
		changed = false
		for i := 0; i < len(path); i++ {
			cand := append(append([]c20op(nil), path[:i]...), path[i+1:]...)
			if c20fails(cand) {
				path = cand
				changed = true
				break
			}
		}
	}
	return path
}

var _ = reflect.DeepEqual
