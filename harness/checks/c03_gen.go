package checks

import (
	"encoding/json"
	"sort"
	"strings"
)

// The document grammar of C03: a handful of hand-shaped base documents (built as generic JSON) and a
// list of edits doc -> doc. Rule-breaking edits break one documented rule in one particular shape;
// neutral edits keep every rule satisfied. An edit that finds no site in a document leaves it unchanged.
// Whether a rule is broken is never taken from the edit list: the oracle recomputes it from the edited
// document.

type jm = map[string]any
type jl = []any

func c03copy(v any) any {
	switch t := v.(type) {
	case map[string]any:
		out := make(map[string]any, len(t))
		for k, e := range t {
			out[k] = c03copy(e)
		}
		return out
	case []any:
		out := make([]any, len(t))
		for i, e := range t {
			out[i] = c03copy(e)
		}
		return out
	}
	return v
}

func c03text(d jm) string {
	b, err := json.Marshal(d) // maps are written in sorted key order: canonical
	if err != nil {
		panic(err)
	}
	return string(b)
}

func jo(v any) jm     { m, _ := v.(map[string]any); return m }
func ja(v any) jl     { l, _ := v.([]any); return l }
func js(v any) string { s, _ := v.(string); return s }

func jkeys(m jm) []string {
	out := make([]string, 0, len(m))
	for k := range m {
		out = append(out, k)
	}
	sort.Strings(out)
	return out
}

// ---- bases ---------------------------------------------------------------------------------------

type c03base struct {
	name string
	doc  jm
}

func c03head() jm {
	return jm{"swagger": "2.0", "info": jm{"title": "t", "version": "1"}, "consumes": jl{"application/json"}, "produces": jl{"application/json"}}
}

func okResp() jm { return jm{"200": jm{"description": "ok"}} }

func pathParam(name, typ string) jm {
	return jm{"name": name, "in": "path", "required": true, "type": typ}
}

// c03bases returns the base documents; the first two are the ones whose single edits go to the shared
// corpus in the quick tier.
func c03bases() []c03base {
	full := c03head()
	full["parameters"] = jm{
		"limitParam": jm{"name": "limit", "in": "query", "type": "integer", "format": "int32"},
		"bodyParam":  jm{"name": "payload", "in": "body", "required": true, "schema": jm{"$ref": "#/definitions/Pet"}},
		"fmtParam":   pathParam("fmt", "string"),
	}
	full["responses"] = jm{
		"Err": jm{"description": "error", "schema": jm{"$ref": "#/definitions/Error"}, "headers": jm{"X-Code": jm{"type": "integer"}}},
	}
	full["paths"] = jm{
		"/pets/{id}": jm{
			"parameters": jl{pathParam("id", "string"), jm{"name": "X-Trace", "in": "header", "type": "string", "pattern": "^[a-f0-9]+$"}},
			"get": jm{
				"operationId": "getPet",
				"parameters": jl{jm{"$ref": "#/parameters/limitParam"},
					jm{"name": "tags", "in": "query", "type": "array", "items": jm{"type": "string"}, "collectionFormat": "csv"}},
				"responses": jm{
					"200": jm{"description": "ok", "schema": jm{"$ref": "#/definitions/Dog"},
						"headers": jm{"X-Rate": jm{"type": "integer"}, "X-Tags": jm{"type": "array", "items": jm{"type": "string"}}}},
					"default": jm{"$ref": "#/responses/Err"}},
			},
			"put": jm{
				"operationId": "putPet",
				// the operation overrides the path-level "id": legal
				"parameters": jl{pathParam("id", "integer"), jm{"$ref": "#/parameters/bodyParam"}},
				"responses":  jm{"200": jm{"description": "ok"}, "default": jm{"$ref": "#/responses/Err"}},
			},
		},
		"/toys/{kind}.{fmt}": jm{
			"post": jm{
				"operationId": "addToy",
				"consumes":    jl{"multipart/form-data"},
				"parameters": jl{pathParam("kind", "string"), jm{"$ref": "#/parameters/fmtParam"},
					jm{"name": "label", "in": "formData", "type": "string"}, jm{"name": "pic", "in": "formData", "type": "file"}},
				"responses": jm{"201": jm{"description": "created", "headers": jm{"Location": jm{"type": "string"}}}},
			},
		},
	}
	full["definitions"] = jm{
		"Pet":   jm{"type": "object", "required": jl{"name"}, "properties": jm{"name": jm{"type": "string"}, "tag": jm{"type": "string"}}},
		"Dog":   jm{"allOf": jl{jm{"$ref": "#/definitions/Pet"}, jm{"type": "object", "properties": jm{"bark": jm{"type": "boolean"}}}}},
		"Error": jm{"type": "object", "required": jl{"code"}, "properties": jm{"code": jm{"type": "integer"}, "msg": jm{"type": "string"}}},
	}

	bodyform := c03head()
	bodyform["parameters"] = jm{
		"payload": jm{"name": "payload", "in": "body", "required": true, "schema": jm{"$ref": "#/definitions/Doc"}},
	}
	bodyform["paths"] = jm{
		"/upload": jm{
			"post": jm{
				"operationId": "upload",
				"consumes":    jl{"multipart/form-data"},
				"parameters":  jl{jm{"name": "file", "in": "formData", "type": "file"}, jm{"name": "note", "in": "formData", "type": "string"}},
				"responses":   okResp(),
			},
			"put": jm{
				"operationId": "replace",
				"parameters":  jl{jm{"$ref": "#/parameters/payload"}},
				"responses":   jm{"200": jm{"description": "ok", "schema": jm{"$ref": "#/definitions/Doc"}}},
			},
		},
		"/docs": jm{
			"post": jm{
				"operationId": "createDocs",
				"parameters": jl{jm{"name": "titles", "in": "body", "required": true,
					"schema": jm{"type": "array", "items": jm{"type": "string", "pattern": "^[a-z]+$"}}}},
				"responses": jm{"201": jm{"description": "created"}},
			},
			"get": jm{
				"operationId": "listDocs",
				"parameters": jl{jm{"name": "limit", "in": "query", "type": "integer"},
					jm{"name": "matrix", "in": "query", "type": "array", "items": jm{"type": "array", "items": jm{"type": "integer"}}}},
				"responses": jm{"200": jm{"description": "ok",
					"schema": jm{"type": "array", "items": jm{"type": "array", "items": jm{"$ref": "#/definitions/Doc"}}}}},
			},
		},
	}
	bodyform["definitions"] = jm{
		"Doc": jm{"type": "object", "required": jl{"title"}, "properties": jm{"title": jm{"type": "string"}, "pages": jm{"type": "integer"}}},
	}

	pathparams := c03head()
	pathparams["parameters"] = jm{"bParam": pathParam("b", "string")}
	pathparams["responses"] = jm{"Err": jm{"description": "error", "schema": jm{"$ref": "#/definitions/Error"}}}
	pathparams["paths"] = jm{
		"/items/{id}": jm{
			"parameters": jl{pathParam("id", "string")},
			"get": jm{
				"operationId": "getItem",
				"parameters": jl{jm{"name": "q", "in": "query", "type": "array", "items": jm{"type": "string"}},
					jm{"name": "X-Req", "in": "header", "type": "string", "pattern": "^r[0-9]+$"}},
				"responses": jm{
					"200": jm{"description": "ok", "schema": jm{"type": "array", "items": jm{"$ref": "#/definitions/Item"}},
						"headers": jm{"X-Sizes": jm{"type": "array", "items": jm{"type": "array", "items": jm{"type": "integer"}}}}},
					"default": jm{"$ref": "#/responses/Err"}},
			},
			"delete": jm{
				"operationId": "deleteItem",
				"parameters":  jl{pathParam("id", "integer")},
				"responses":   jm{"204": jm{"description": "gone"}},
			},
		},
		"/ranges/{a}-{b}": jm{
			"get": jm{
				"operationId": "getRange",
				"parameters":  jl{pathParam("a", "integer"), jm{"$ref": "#/parameters/bParam"}},
				"responses":   okResp(),
			},
		},
	}
	pathparams["definitions"] = jm{
		"Item":  jm{"type": "object", "required": jl{"id"}, "properties": jm{"id": jm{"type": "integer"}, "name": jm{"type": "string"}}},
		"Error": jm{"type": "object", "properties": jm{"msg": jm{"type": "string"}}},
	}

	inherit := c03head()
	inherit["paths"] = jm{
		"/animals": jm{
			"get": jm{
				"operationId": "listAnimals",
				"responses":   jm{"200": jm{"description": "ok", "schema": jm{"type": "array", "items": jm{"$ref": "#/definitions/Puppy"}}}},
			},
			"post": jm{
				"operationId": "addAnimal",
				"parameters":  jl{jm{"name": "animal", "in": "body", "required": true, "schema": jm{"$ref": "#/definitions/Dog"}}},
				"responses":   jm{"201": jm{"description": "created", "schema": jm{"$ref": "#/definitions/Crate"}}},
			},
		},
	}
	inherit["definitions"] = jm{
		"Animal": jm{"type": "object", "required": jl{"name"}, "properties": jm{"name": jm{"type": "string"}, "kind": jm{"type": "string"}}},
		"Dog": jm{"allOf": jl{jm{"$ref": "#/definitions/Animal"},
			jm{"type": "object", "required": jl{"bark"}, "properties": jm{"bark": jm{"type": "boolean"}}}}},
		"Puppy": jm{"allOf": jl{jm{"$ref": "#/definitions/Dog"}, jm{"type": "object", "properties": jm{"age": jm{"type": "integer"}}}}},
		"Crate": jm{"type": "object", "properties": jm{"label": jm{"type": "string"}, "occupant": jm{"$ref": "#/definitions/Animal"}}},
	}

	minimal := c03head()
	minimal["paths"] = jm{"/ping": jm{"get": jm{"operationId": "ping", "responses": okResp()}}}

	nopaths := c03head()
	nopaths["paths"] = jm{}
	nopaths["definitions"] = jm{
		"Thing": jm{"type": "object", "properties": jm{"x": jm{"type": "string"}}},
		"Sub":   jm{"allOf": jl{jm{"$ref": "#/definitions/Thing"}, jm{"type": "object", "properties": jm{"y": jm{"type": "string"}}}}},
	}

	// a document of some size WITHOUT any $ref (rules that work on the expanded copy of the document
	// must not depend on there being something to expand)
	norefs := c03head()
	norefs["paths"] = jm{
		"/things/{tid}": jm{
			"parameters": jl{pathParam("tid", "string"), jm{"name": "limit", "in": "query", "type": "integer"}, jm{"name": "X-Trace", "in": "header", "type": "string", "pattern": "^[a-f0-9]+$"}},
			"get": jm{
				"operationId": "getThing",
				"parameters":  jl{jm{"name": "tags", "in": "query", "type": "array", "items": jm{"type": "string"}}},
				"responses": jm{"200": jm{"description": "ok", "schema": jm{"type": "object", "required": jl{"name"}, "properties": jm{"name": jm{"type": "string"}}},
					"headers": jm{"X-Rate": jm{"type": "integer"}}}},
			},
			"put": jm{
				"operationId": "putThing",
				"parameters":  jl{jm{"name": "payload", "in": "body", "required": true, "schema": jm{"type": "object", "properties": jm{"name": jm{"type": "string"}}}}},
				"responses":   jm{"204": jm{"description": "done"}},
			},
		},
		"/uploads": jm{
			"post": jm{
				"operationId": "upload",
				"consumes":    jl{"multipart/form-data"},
				"parameters":  jl{jm{"name": "label", "in": "formData", "type": "string"}, jm{"name": "pic", "in": "formData", "type": "file"}},
				"responses":   okResp(),
			},
		},
	}
	norefs["definitions"] = jm{
		"Plain": jm{"type": "object", "required": jl{"id"}, "properties": jm{"id": jm{"type": "integer"}, "label": jm{"type": "string"}}},
	}

	// the parent of an allOf heir is reached through a definition that is only an alias ($ref) of the
	// real one: two hops
	aliased := c03head()
	aliased["paths"] = jm{"/nodes": jm{"get": jm{"operationId": "listNodes",
		"responses": jm{"200": jm{"description": "ok", "schema": jm{"type": "array", "items": jm{"$ref": "#/definitions/Derived"}}}}}}}
	aliased["definitions"] = jm{
		"Base":      jm{"type": "object", "required": jl{"id"}, "properties": jm{"id": jm{"type": "integer"}, "label": jm{"type": "string"}}},
		"BaseAlias": jm{"$ref": "#/definitions/Base"},
		"Derived": jm{"allOf": jl{jm{"$ref": "#/definitions/BaseAlias"},
			jm{"type": "object", "properties": jm{"extra": jm{"type": "string"}}}}},
	}

	return []c03base{{"full", full}, {"bodyform", bodyform}, {"pathparams", pathparams}, {"inherit", inherit}, {"minimal", minimal}, {"nopaths", nopaths}, {"norefs", norefs}, {"aliased", aliased}}
}

// ---- sites -----------------------------------------------------------------------------------------

var c03methods = []string{"get", "put", "post", "delete", "options", "head", "patch"}

type c03op struct {
	path, method string
	item, op     jm
}

func c03ops(d jm) []c03op {
	var out []c03op
	paths := jo(d["paths"])
	for _, p := range jkeys(paths) {
		item := jo(paths[p])
		for _, m := range c03methods {
			if op := jo(item[m]); op != nil {
				out = append(out, c03op{p, m, item, op})
			}
		}
	}
	return out
}

// c03resolve follows a local $ref of a parameter / response / schema.
func c03resolve(d jm, v any) jm {
	m := jo(v)
	for i := 0; m != nil && i < 16; i++ {
		r, has := m["$ref"]
		if !has {
			return m
		}
		parts := strings.Split(strings.TrimPrefix(js(r), "#/"), "/")
		var cur any = d
		for _, p := range parts {
			cur = jo(cur)[p]
		}
		m = jo(cur)
	}
	return nil
}

func c03placeholders(path string) []string {
	var out []string
	for {
		i := strings.Index(path, "{")
		if i < 0 {
			return out
		}
		j := strings.Index(path[i:], "}")
		if j < 0 {
			return out
		}
		out = append(out, path[i+1:i+j])
		path = path[i+j+1:]
	}
}

// holder is something that owns a "parameters" list: a path item or an operation.
func c03holders(d jm) []jm {
	var out []jm
	paths := jo(d["paths"])
	for _, p := range jkeys(paths) {
		item := jo(paths[p])
		out = append(out, item)
		for _, m := range c03methods {
			if op := jo(item[m]); op != nil {
				out = append(out, op)
			}
		}
	}
	return out
}

func addParam(holder jm, p jm) { holder["parameters"] = append(ja(holder["parameters"]), p) }

// removePathParam removes every declaration of the path parameter `name` from a path item and its operations.
func removePathParam(d jm, item jm, name string) {
	holders := []jm{item}
	for _, m := range c03methods {
		if op := jo(item[m]); op != nil {
			holders = append(holders, op)
		}
	}
	for _, h := range holders {
		if _, has := h["parameters"]; !has {
			continue
		}
		kept := jl{}
		for _, e := range ja(h["parameters"]) {
			p := c03resolve(d, e)
			if p != nil && js(p["in"]) == "path" && js(p["name"]) == name {
				continue
			}
			kept = append(kept, e)
		}
		h["parameters"] = kept
	}
}

// schemaSites returns the inline schemas of body parameters (inline or shared) and of responses
// (inline or shared), in a fixed order.
func c03schemaSites(d jm, wantBody, wantResponse bool) []jm {
	var out []jm
	seen := map[string]bool{}
	add := func(owner jm) {
		s := jo(owner["schema"])
		if s == nil {
			return
		}
		k := c03text(owner)
		if !seen[k] {
			seen[k] = true
			out = append(out, s)
		}
	}
	for _, o := range c03ops(d) {
		if wantBody {
			for _, h := range []jm{o.item, o.op} {
				for _, e := range ja(h["parameters"]) {
					if p := c03resolve(d, e); p != nil && js(p["in"]) == "body" {
						add(p)
					}
				}
			}
		}
		if wantResponse {
			rs := jo(o.op["responses"])
			for _, code := range jkeys(rs) {
				if r := c03resolve(d, rs[code]); r != nil {
					add(r)
				}
			}
		}
	}
	return out
}

// simpleSites returns resolved non-body parameters (params=true) or response headers (params=false)
// that are used by some operation.
func c03simpleSites(d jm, params bool) []jm {
	var out []jm
	for _, o := range c03ops(d) {
		if params {
			for _, h := range []jm{o.item, o.op} {
				for _, e := range ja(h["parameters"]) {
					if p := c03resolve(d, e); p != nil && js(p["in"]) != "body" {
						out = append(out, p)
					}
				}
			}
			continue
		}
		rs := jo(o.op["responses"])
		for _, code := range jkeys(rs) {
			if r := c03resolve(d, rs[code]); r != nil {
				hs := jo(r["headers"])
				for _, h := range jkeys(hs) {
					out = append(out, jo(hs[h]))
				}
			}
		}
	}
	return out
}

// plainDefinition is the first top-level definition that is a plain object with properties.
func c03plainDefinition(d jm) jm {
	defs := jo(d["definitions"])
	for _, k := range jkeys(defs) {
		s := jo(defs[k])
		if _, has := s["allOf"]; !has && jo(s["properties"]) != nil {
			return s
		}
	}
	return nil
}

func requireNope(d jm, additional any) bool {
	s := c03plainDefinition(d)
	if s == nil {
		return false
	}
	has := false
	for _, r := range ja(s["required"]) {
		if js(r) == "nope" {
			has = true
		}
	}
	if !has {
		s["required"] = append(ja(s["required"]), "nope")
	}
	if additional != nil {
		s["additionalProperties"] = additional
	}
	return true
}

// heir is the first definition with an allOf made of a reference and an inline member with properties.
func c03heir(d jm) (name string, def jm, parentRef string, inline jm) {
	defs := jo(d["definitions"])
	for _, k := range jkeys(defs) {
		s := jo(defs[k])
		var ref string
		var inl jm
		for _, m := range ja(s["allOf"]) {
			mm := jo(m)
			if r := js(mm["$ref"]); r != "" && ref == "" {
				ref = r
			} else if jo(mm["properties"]) != nil && inl == nil {
				inl = mm
			}
		}
		if ref != "" && inl != nil {
			return k, s, ref, inl
		}
	}
	return "", nil, "", nil
}

// inheritedProperty finds a property name declared by the ancestors reached through ref.
func c03inheritedProperty(d jm, ref string) string {
	for i := 0; i < 8 && ref != ""; i++ {
		s := c03resolve(d, jm{"$ref": ref})
		if s == nil {
			return ""
		}
		if ps := jkeys(jo(s["properties"])); len(ps) > 0 {
			return ps[0]
		}
		next := js(s["$ref"]) // a definition that is only an alias of another one
		for _, m := range ja(s["allOf"]) {
			mm := jo(m)
			if ps := jkeys(jo(mm["properties"])); len(ps) > 0 {
				return ps[0]
			}
			if r := js(mm["$ref"]); r != "" && next == "" {
				next = r
			}
		}
		ref = next
	}
	return ""
}

// firstRef finds, in sorted walk order, the first object under v whose "$ref" starts with prefix.
func c03firstRef(v any, prefix string) jm {
	switch t := v.(type) {
	case map[string]any:
		if strings.HasPrefix(js(t["$ref"]), prefix) {
			return t
		}
		for _, k := range jkeys(t) {
			if r := c03firstRef(t[k], prefix); r != nil {
				return r
			}
		}
	case []any:
		for _, e := range t {
			if r := c03firstRef(e, prefix); r != nil {
				return r
			}
		}
	}
	return nil
}

// c03twinPath copies the first path item with one placeholder (or, with several=true, with at least
// two) under a key whose placeholders are all renamed, together with its path parameters; operation
// ids are renamed so that only the overlap of the two templates remains.
func c03twinPath(d jm, several bool) bool {
	paths := jo(d["paths"])
	for _, p := range jkeys(paths) {
		ph := c03placeholders(p)
		if (several && len(ph) < 2) || (!several && len(ph) != 1) {
			continue
		}
		rename := map[string]string{}
		np := p
		for _, name := range ph {
			if name == "" || rename[name] != "" {
				return false
			}
			rename[name] = name + "2"
			np = strings.Replace(np, "{"+name+"}", "{"+name+"2}", 1)
		}
		if _, exists := paths[np]; exists {
			return false
		}
		twin := c03copy(paths[p]).(jm)
		holders := []jm{twin}
		for _, m := range c03methods {
			if op := jo(twin[m]); op != nil {
				holders = append(holders, op)
				if id := js(op["operationId"]); id != "" {
					op["operationId"] = id + "Twin"
				}
			}
		}
		for _, h := range holders {
			l := ja(h["parameters"])
			for i, e := range l {
				if q := c03resolve(d, e); q != nil && js(q["in"]) == "path" && rename[js(q["name"])] != "" {
					q = c03copy(q).(jm)
					q["name"] = rename[js(q["name"])]
					l[i] = q
				}
			}
		}
		paths[np] = twin
		return true
	}
	return false
}

// ---- edits -----------------------------------------------------------------------------------------

type c03edit struct {
	name    string
	neutral bool // keeps every rule satisfied (when applied to a base alone)
	apply   func(d jm) bool
}

func c03edits() []c03edit {
	dupOf := func(p jm) jm {
		q := c03copy(p).(jm)
		q["description"] = "duplicate"
		return q
	}
	return []c03edit{
		{"duplicate-operation-id", false, func(d jm) bool {
			ops := c03ops(d)
			if len(ops) < 2 || js(ops[0].op["operationId"]) == "" {
				return false
			}
			ops[1].op["operationId"] = ops[0].op["operationId"]
			return true
		}},
		{"path-param-undeclared", false, func(d jm) bool {
			for _, o := range c03ops(d) {
				if ph := c03placeholders(o.path); len(ph) > 0 {
					removePathParam(d, o.item, ph[0])
					return true
				}
			}
			return false
		}},
		{"path-param-not-required", false, func(d jm) bool {
			for _, h := range c03holders(d) {
				for _, e := range ja(h["parameters"]) {
					if p := jo(e); js(p["in"]) == "path" {
						p["required"] = false
						return true
					}
				}
			}
			return false
		}},
		{"shared-path-param-required-absent", false, func(d jm) bool {
			shared := jo(d["parameters"])
			for _, k := range jkeys(shared) {
				if p := jo(shared[k]); js(p["in"]) == "path" {
					delete(p, "required")
					return true
				}
			}
			return false
		}},
		{"path-param-unused", false, func(d jm) bool {
			ops := c03ops(d)
			if len(ops) == 0 {
				return false
			}
			addParam(ops[0].op, pathParam("ghost", "string"))
			return true
		}},
		{"duplicate-placeholder", false, func(d jm) bool {
			paths := jo(d["paths"])
			for _, p := range jkeys(paths) {
				ph := c03placeholders(p)
				if len(ph) != 2 || ph[0] == ph[1] || ph[0] == "" || ph[1] == "" {
					continue
				}
				item := jo(paths[p])
				removePathParam(d, item, ph[1])
				delete(paths, p)
				paths[strings.Replace(p, "{"+ph[1]+"}", "{"+ph[0]+"}", 1)] = item
				return true
			}
			return false
		}},
		{"duplicate-param-in-operation-list", false, func(d jm) bool {
			for _, o := range c03ops(d) {
				for _, e := range ja(o.op["parameters"]) {
					if p := jo(e); js(p["name"]) != "" {
						addParam(o.op, dupOf(p))
						return true
					}
				}
			}
			return false
		}},
		{"duplicate-param-in-path-item-list", false, func(d jm) bool {
			paths := jo(d["paths"])
			for _, k := range jkeys(paths) {
				item := jo(paths[k])
				for _, e := range ja(item["parameters"]) {
					if p := jo(e); js(p["name"]) != "" && js(p["in"]) != "path" {
						addParam(item, dupOf(p))
						return true
					}
				}
			}
			for _, k := range jkeys(paths) {
				item := jo(paths[k])
				for _, e := range ja(item["parameters"]) {
					if p := jo(e); js(p["name"]) != "" {
						addParam(item, dupOf(p))
						return true
					}
				}
			}
			return false
		}},
		{"duplicate-param-through-shared-parameter", false, func(d jm) bool {
			for _, o := range c03ops(d) {
				for _, e := range ja(o.op["parameters"]) {
					if js(jo(e)["$ref"]) != "" {
						if p := c03resolve(d, e); p != nil {
							addParam(o.op, dupOf(p))
							return true
						}
					}
				}
			}
			return false
		}},
		{"two-body-parameters", false, func(d jm) bool {
			for _, o := range c03ops(d) {
				for _, e := range ja(o.op["parameters"]) {
					if p := c03resolve(d, e); p != nil && js(p["in"]) == "body" {
						addParam(o.op, jm{"name": "extra", "in": "body", "schema": jm{"type": "object"}})
						return true
					}
				}
			}
			return false
		}},
		{"body-next-to-formdata", false, func(d jm) bool {
			for _, o := range c03ops(d) {
				for _, e := range ja(o.op["parameters"]) {
					if p := jo(e); js(p["in"]) == "body" {
						addParam(o.op, jm{"name": "field", "in": "formData", "type": "string"})
						return true
					}
				}
			}
			return false
		}},
		{"shared-body-next-to-formdata", false, func(d jm) bool {
			for _, o := range c03ops(d) {
				for _, e := range ja(o.op["parameters"]) {
					if js(jo(e)["$ref"]) == "" {
						continue
					}
					if p := c03resolve(d, e); p != nil && js(p["in"]) == "body" {
						addParam(o.op, jm{"name": "field", "in": "formData", "type": "string"})
						return true
					}
				}
			}
			return false
		}},
		{"formdata-next-to-shared-body", false, func(d jm) bool {
			// the other way round: an operation with formData gains a reference to a shared body parameter
			shared := jo(d["parameters"])
			ref := ""
			for _, k := range jkeys(shared) {
				if js(jo(shared[k])["in"]) == "body" {
					ref = "#/parameters/" + k
					break
				}
			}
			if ref == "" {
				return false
			}
			for _, o := range c03ops(d) {
				for _, e := range ja(o.op["parameters"]) {
					if js(jo(e)["in"]) == "formData" {
						addParam(o.op, jm{"$ref": ref})
						return true
					}
				}
			}
			return false
		}},
		{"array-without-items-in-parameter", false, func(d jm) bool {
			for _, p := range c03simpleSites(d, true) {
				if js(p["type"]) == "array" {
					delete(p, "items")
					return true
				}
			}
			return false
		}},
		{"array-without-items-in-header", false, func(d jm) bool {
			for _, h := range c03simpleSites(d, false) {
				if js(h["type"]) == "array" {
					delete(h, "items")
					return true
				}
			}
			return false
		}},
		{"array-without-items-in-body-schema", false, func(d jm) bool {
			for _, s := range c03schemaSites(d, true, false) {
				if js(s["type"]) == "array" {
					delete(s, "items")
					return true
				}
			}
			return false
		}},
		{"array-without-items-in-response-schema", false, func(d jm) bool {
			for _, s := range c03schemaSites(d, false, true) {
				if js(s["type"]) == "array" {
					delete(s, "items")
					return true
				}
			}
			return false
		}},
		{"array-without-items-in-nested-parameter-items", false, func(d jm) bool {
			for _, p := range c03simpleSites(d, true) {
				if it := jo(p["items"]); js(p["type"]) == "array" && js(it["type"]) == "array" {
					delete(it, "items")
					return true
				}
			}
			return false
		}},
		{"array-without-items-in-nested-header-items", false, func(d jm) bool {
			for _, h := range c03simpleSites(d, false) {
				if it := jo(h["items"]); js(h["type"]) == "array" && js(it["type"]) == "array" {
					delete(it, "items")
					return true
				}
			}
			return false
		}},
		{"array-without-items-in-nested-schema-items", false, func(d jm) bool {
			for _, s := range c03schemaSites(d, true, true) {
				if it := jo(s["items"]); js(s["type"]) == "array" && js(it["type"]) == "array" {
					delete(it, "items")
					return true
				}
			}
			return false
		}},
		{"required-undefined", false, func(d jm) bool { return requireNope(d, nil) }},
		{"required-via-additionalProperties-true", true, func(d jm) bool { return requireNope(d, true) }},
		{"required-via-additionalProperties-schema", true, func(d jm) bool {
			return requireNope(d, jm{"type": "object", "properties": jm{"nope": jm{"type": "string"}}})
		}},
		{"required-via-nested-additionalProperties-schema", true, func(d jm) bool {
			return requireNope(d, jm{"type": "object", "additionalProperties": jm{"type": "object", "properties": jm{"nope": jm{"type": "string"}}}})
		}},
		{"required-via-additionalProperties-string", false, func(d jm) bool { return requireNope(d, jm{"type": "string"}) }},
		{"unresolvable-schema-ref", false, func(d jm) bool {
			r := c03firstRef(d["paths"], "#/definitions/")
			if r == nil {
				r = c03firstRef(d["definitions"], "#/definitions/")
			}
			if r == nil {
				return false
			}
			r["$ref"] = "#/definitions/Nope"
			return true
		}},
		{"unresolvable-parameter-ref", false, func(d jm) bool {
			r := c03firstRef(d["paths"], "#/parameters/")
			if r == nil {
				return false
			}
			r["$ref"] = "#/parameters/Nope"
			return true
		}},
		{"unresolvable-response-ref", false, func(d jm) bool {
			r := c03firstRef(d["paths"], "#/responses/")
			if r == nil {
				return false
			}
			r["$ref"] = "#/responses/Nope"
			return true
		}},
		{"duplicate-inherited-property", false, func(d jm) bool {
			_, _, ref, inline := c03heir(d)
			if inline == nil {
				return false
			}
			p := c03inheritedProperty(d, ref)
			if p == "" {
				return false
			}
			jo(inline["properties"])[p] = jm{"type": "string"}
			return true
		}},
		{"duplicate-inherited-property-next-to-allOf", false, func(d jm) bool {
			_, def, ref, _ := c03heir(d)
			if def == nil {
				return false
			}
			p := c03inheritedProperty(d, ref)
			if p == "" {
				return false
			}
			props := jo(def["properties"])
			if props == nil {
				props = jm{}
				def["properties"] = props
			}
			props[p] = jm{"type": "string"}
			return true
		}},
		{"circular-ancestry", false, func(d jm) bool {
			name, _, ref, _ := c03heir(d)
			if name == "" || !strings.HasPrefix(ref, "#/definitions/") {
				return false
			}
			parent := strings.TrimPrefix(ref, "#/definitions/")
			defs := jo(d["definitions"])
			old := jo(defs[parent])
			if old == nil {
				return false
			}
			defs[parent] = jm{"allOf": jl{jm{"$ref": "#/definitions/" + name}, old}}
			return true
		}},
		{"self-ancestry", false, func(d jm) bool {
			name, def, _, _ := c03heir(d)
			if def == nil {
				return false
			}
			def["allOf"] = append(jl{jm{"$ref": "#/definitions/" + name}}, ja(def["allOf"])...)
			return true
		}},
		{"overlapping-paths", false, func(d jm) bool { return c03twinPath(d, false) }},
		{"overlapping-paths-two-placeholders", false, func(d jm) bool { return c03twinPath(d, true) }},
		{"invalid-pattern-in-parameter", false, func(d jm) bool {
			sites := c03simpleSites(d, true)
			for _, withPattern := range []bool{true, false} {
				for _, p := range sites {
					_, has := p["pattern"]
					if js(p["type"]) == "string" && has == withPattern {
						p["pattern"] = "a(b"
						return true
					}
				}
			}
			return false
		}},
		{"invalid-pattern-in-body-schema-items", false, func(d jm) bool {
			for _, s := range c03schemaSites(d, true, false) {
				if it := jo(s["items"]); js(s["type"]) == "array" && js(it["type"]) == "string" {
					it["pattern"] = "a(b"
					return true
				}
			}
			return false
		}},
		{"empty-placeholder", false, func(d jm) bool {
			paths := jo(d["paths"])
			for _, p := range jkeys(paths) {
				item := paths[p]
				delete(paths, p)
				paths[p+"/{}"] = item
				return true
			}
			return false
		}},
		// neutral edits: every rule still holds
		{"operation-ids-differing-in-case", true, func(d jm) bool {
			// ids are plain strings: "getPet" and "GETPET" are two ids
			ops := c03ops(d)
			if len(ops) < 2 || js(ops[0].op["operationId"]) == "" {
				return false
			}
			ops[1].op["operationId"] = strings.ToUpper(js(ops[0].op["operationId"]))
			return true
		}},
		{"same-name-in-another-location", true, func(d jm) bool {
			// a parameter is identified by name AND location: "q" in query next to "q" in header is legal
			for _, o := range c03ops(d) {
				for _, e := range ja(o.op["parameters"]) {
					if p := jo(e); js(p["in"]) == "query" && js(p["name"]) != "" {
						addParam(o.op, jm{"name": p["name"], "in": "header", "type": "string"})
						return true
					}
				}
			}
			return false
		}},
		{"rename-operation-id", true, func(d jm) bool {
			for _, o := range c03ops(d) {
				if id := js(o.op["operationId"]); id != "" {
					o.op["operationId"] = id + "Renamed"
					return true
				}
			}
			return false
		}},
		{"add-unused-definition", true, func(d jm) bool {
			defs := jo(d["definitions"])
			if defs == nil {
				defs = jm{}
				d["definitions"] = defs
			}
			defs["Unused"] = jm{"type": "object", "properties": jm{"x": jm{"type": "string"}}}
			return true
		}},
		{"model-properties-named-like-keywords", true, func(d jm) bool {
			// property names are free: a model may call its members items, type, properties, default,
			// headers, required, id, $schema, in, name, schema, allOf … (the object validator looks at
			// some of these names when it applies the Swagger-only array checks)
			defs := jo(d["definitions"])
			if defs == nil {
				defs = jm{}
				d["definitions"] = defs
			}
			inner := jm{"type": "object", "properties": jm{"items": jm{"type": "integer"}, "type": jm{"type": "integer"}, "properties": jm{"type": "string"}}}
			defs["Keywords"] = jm{"type": "object", "required": jl{"items", "type"}, "properties": jm{
				"items": jm{"type": "string"}, "type": jm{"type": "string"}, "properties": inner, "default": jm{"type": "string"},
				"example": jm{"type": "string"}, "examples": jm{"type": "string"}, "headers": jm{"type": "object"}, "required": jm{"type": "boolean"}, "enum": jm{"type": "string"},
				"id": jm{"type": "integer"}, "$schema": jm{"type": "string"}, "in": jm{"type": "string"}, "name": jm{"type": "string"},
				"schema": inner, "allOf": jm{"type": "array", "items": jm{"type": "string"}}, "additionalProperties": jm{"type": "boolean"},
				"definitions": jm{"type": "object", "properties": jm{"items": jm{"type": "string"}}},
			}}
			return true
		}},
		{"definition-named-items", true, func(d jm) bool {
			// definition names are free as well
			defs := jo(d["definitions"])
			if defs == nil {
				defs = jm{}
				d["definitions"] = defs
			}
			defs["items"] = jm{"type": "object", "properties": jm{"x": jm{"type": "string"}}}
			return true
		}},
		{"definition-named-properties", true, func(d jm) bool {
			defs := jo(d["definitions"])
			if defs == nil {
				defs = jm{}
				d["definitions"] = defs
			}
			defs["properties"] = jm{"type": "object", "properties": jm{"items": jm{"type": "string"}, "type": jm{"type": "string"}}}
			return true
		}},
		{"named-things-called-items", true, func(d jm) bool {
			// shared parameters / responses / security definitions are maps keyed by free names, and a
			// vendor extension holds free-form data: a member called "items" (or "type") is not the keyword
			d["parameters"] = jm{"items": jm{"name": "unusedq", "in": "query", "type": "string"}, "type": jm{"name": "unusedr", "in": "query", "type": "string"}}
			d["responses"] = jm{"items": jm{"description": "unused"}}
			d["securityDefinitions"] = jm{"items": jm{"type": "basic"}}
			d["x-catalog"] = jm{"items": jl{"a", "b"}, "type": "list"}
			d["x-shape"] = jm{"type": "array"}
			if defs := jo(d["definitions"]); defs != nil {
				for _, k := range jkeys(defs) {
					if m := jo(defs[k]); m != nil {
						m["x-ui"] = jm{"items": 3}
						break
					}
				}
			}
			return true
		}},
		{"response-header-called-items", true, func(d jm) bool {
			for _, o := range c03ops(d) {
				for _, code := range jkeys(jo(o.op["responses"])) {
					r := jo(jo(o.op["responses"])[code])
					if r == nil || r["$ref"] != nil {
						continue
					}
					h := jo(r["headers"])
					if h == nil {
						h = jm{}
						r["headers"] = h
					}
					h["items"] = jm{"type": "integer"}
					h["type"] = jm{"type": "string"}
					return true
				}
			}
			return false
		}},
		{"move-parameter-to-path-item", true, func(d jm) bool {
			for _, o := range c03ops(d) {
				l := ja(o.op["parameters"])
				for i, e := range l {
					p := c03resolve(d, e)
					if p == nil || js(p["in"]) == "body" || js(p["in"]) == "formData" {
						continue
					}
					clash := false
					for _, pe := range ja(o.item["parameters"]) {
						if q := c03resolve(d, pe); q != nil && js(q["in"]) == js(p["in"]) && js(q["name"]) == js(p["name"]) {
							clash = true
						}
					}
					if clash {
						continue
					}
					rest := append(jl{}, l[:i]...)
					rest = append(rest, l[i+1:]...)
					if len(rest) == 0 {
						delete(o.op, "parameters")
					} else {
						o.op["parameters"] = rest
					}
					addParam(o.item, jo(e))
					return true
				}
			}
			return false
		}},
		{"override-path-item-parameter", true, func(d jm) bool {
			// an operation re-declares a path-item parameter with another type: legal
			for _, o := range c03ops(d) {
				for _, pe := range ja(o.item["parameters"]) {
					q := c03resolve(d, pe)
					if q == nil || js(q["in"]) == "path" {
						continue
					}
					clash := false
					for _, e := range ja(o.op["parameters"]) {
						if p := c03resolve(d, e); p != nil && js(p["in"]) == js(q["in"]) && js(p["name"]) == js(q["name"]) {
							clash = true
						}
					}
					if clash {
						continue
					}
					addParam(o.op, jm{"name": q["name"], "in": q["in"], "type": "integer"})
					return true
				}
			}
			return false
		}},
		{"one-placeholder-sibling-of-two-placeholder-segment", true, func(d jm) bool {
			// "/toys/{kind}.{fmt}" next to "/toys/{one}": the segments differ in their literal text,
			// so the paths do not overlap
			paths := jo(d["paths"])
			for _, p := range jkeys(paths) {
				segs := strings.Split(p, "/")
				last := segs[len(segs)-1]
				if len(c03placeholders(last)) < 2 {
					continue
				}
				np := strings.Join(segs[:len(segs)-1], "/") + "/{one}"
				if _, exists := paths[np]; exists {
					return false
				}
				item := jm{}
				for _, m := range c03methods {
					if jo(jo(paths[p])[m]) != nil {
						item[m] = jm{"operationId": m + "One", "responses": okResp(),
							"parameters": []any{jm{"name": "one", "in": "path", "required": true, "type": "string"}}}
					}
				}
				// path-level placeholders of the prefix must stay declared: copy the path-item parameters
				// that name placeholders of the prefix
				prefixPH := c03placeholders(strings.Join(segs[:len(segs)-1], "/"))
				if len(prefixPH) > 0 {
					return false
				}
				paths[np] = item
				return true
			}
			return false
		}},
		{"literal-sibling-of-templated-path", true, func(d jm) bool {
			// "/pets/{id}" next to "/pets/X": different paths (a literal segment is not a placeholder)
			paths := jo(d["paths"])
			for _, p := range jkeys(paths) {
				ph := c03placeholders(p)
				if len(ph) != 1 || !strings.HasSuffix(p, "/{"+ph[0]+"}") {
					continue
				}
				item := jm{}
				for _, m := range c03methods {
					if jo(jo(paths[p])[m]) != nil {
						item[m] = jm{"operationId": m + "Literal", "responses": okResp()}
					}
				}
				np := strings.TrimSuffix(p, "{"+ph[0]+"}") + "X"
				if _, exists := paths[np]; exists {
					return false
				}
				paths[np] = item
				return true
			}
			return false
		}},
	}
}

// ---- enumeration -----------------------------------------------------------------------------------

type c03case struct {
	base  int
	edits []int // indices into c03edits(), ascending
	text  string
}

// c03apply applies the edits (in index order) to a deep copy of the base.
func c03apply(base jm, all []c03edit, edits []int) jm {
	d := c03copy(base).(jm)
	for _, e := range edits {
		all[e].apply(d)
	}
	return d
}

// c03cases enumerates base x all subsets of at most maxEdits edits, smallest subsets first, and keeps
// one case per distinct document text (so the kept edit list is a smallest one producing it).
func c03cases(maxEdits int) []c03case {
	bases, edits := c03bases(), c03edits()
	seen := map[string]bool{}
	var out []c03case
	add := func(b int, es []int) {
		t := c03text(c03apply(bases[b].doc, edits, es))
		if !seen[t] {
			seen[t] = true
			out = append(out, c03case{b, append([]int{}, es...), t})
		}
	}
	for b := range bases {
		add(b, nil)
	}
	if maxEdits >= 1 {
		for b := range bases {
			for i := range edits {
				add(b, []int{i})
			}
		}
	}
	if maxEdits >= 2 {
		for b := range bases {
			for i := range edits {
				for j := i + 1; j < len(edits); j++ {
					add(b, []int{i, j})
				}
			}
		}
	}
	return out
}

// c03Corpus is the document corpus shared with other spec-level checks: every base and every
// base x single edit (quick: single edits of the first two bases only).
func c03Corpus(quick bool) []string {
	bases, edits := c03bases(), c03edits()
	seen := map[string]bool{}
	var out []string
	add := func(t string) {
		if !seen[t] {
			seen[t] = true
			out = append(out, t)
		}
	}
	for _, b := range bases {
		add(c03text(b.doc))
	}
	for bi, b := range bases {
		if quick && bi >= 2 {
			break
		}
		for i := range edits {
			add(c03text(c03apply(b.doc, edits, []int{i})))
		}
	}
	return out
}

func init() { corpusProviders["C03"] = c03Corpus }
