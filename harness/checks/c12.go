package checks

import (
	"encoding/json"
	"fmt"
	"strings"

	"github.com/go-openapi/loads"
	"github.com/go-openapi/spec"
	"github.com/go-openapi/strfmt"
	"github.com/go-openapi/validate"

	"verif/harness/gen"
	"verif/harness/hx"
	"verif/harness/shrink"
)

// C12 — validation treats its inputs as read-only: deep snapshots of the instance, of the schema
// (when it has no $ref), of the parameter/header definition and its value, of the raw bytes of a
// document and of the parsed specification (accepted documents without self-referential definitions)
// are compared before and after every call.

func init() { Registry["C12"] = c12 }

func deepSnap(v any) string { return fmt.Sprintf("%#v", v) }

func jsonSnap(v any) string {
	b, err := json.Marshal(v)
	if err != nil {
		return "<" + err.Error() + ">"
	}
	return string(b)
}

type c12struct struct {
	A int            `json:"a"`
	B []string       `json:"b"`
	N map[string]any `json:"n,omitempty"`
	D *float64       `json:"d,omitempty"`
}

// typed instances are rebuilt for every case; pointers are printed by content through the JSON snapshot
var c12typed = []func() any{
	func() any { return c12struct{A: 3, B: []string{"aa", "b"}, N: map[string]any{"x": []any{1.0, "y"}}} },
	func() any { f := 2.5; return &c12struct{A: 1, B: nil, D: &f} },
	func() any { return map[string]any{"a": []any{map[string]any{"a": 1.0}}, "b": "s"} },
	func() any { return []any{map[string]any{"a": 1.0}, []any{"x"}} },
	func() any { return map[string]string{"a": "x"} },
	func() any { return []string{"aa", "b"} },
	func() any { return []int{1, 2, 2} },
	// unsorted, with and without duplicates (an in-place sort or compaction shows)
	func() any { return []string{"b", "aa", "b", ""} },
	func() any { return []string{"z", "y", "x"} },
	func() any { return []int{3, 1, 2, 1} },
	func() any { return []float64{2.5, -1, 2.5} },
	func() any { return []any{"b", "a", 2.0, 1.0, "b"} },
	func() any { return [][]string{{"b", "a"}, {"b", "a"}} },
	func() any { return map[string][]string{"b": {"z", "a", "z"}, "a": {"y", "x"}} },
	func() any { return c12struct{A: 3, B: []string{"z", "b", "a"}, N: map[string]any{"x": []string{"q", "p"}}} },
}

var c12extraAtoms = []string{
	`{"uniqueItems":true}`,
	`{"items":{"uniqueItems":true}}`,
	`{"properties":{"b":{"uniqueItems":true,"maxItems":2},"a":{"uniqueItems":true}},"additionalProperties":{"uniqueItems":true}}`,
	`{"enum":[["z","y","x"],["a","b"]]}`,
	`{"items":{"enum":["a","b","z"]},"minItems":1}`,
	`{"properties":{"a":{"default":1}}}`,
	`{"properties":{"a":{"type":"integer","default":1},"b":{"default":{"x":[1]}}},"required":["a"]}`,
	`{"items":{"properties":{"n":{"default":[1,2]}}}}`,
	`{"allOf":[{"properties":{"a":{"default":"d"}}},{"properties":{"b":{"default":2}}}]}`,
	`{"additionalProperties":{"default":1}}`,
	`{"type":"object","properties":{"a":{"type":"array","items":{"type":"object","properties":{"n":{"type":"integer","default":1}}}}}}`,
}

// c12schemaCase returns "" or what was modified.
func c12schemaCase(schemaText, instText string, mode int) string {
	sch, err := parseSpecSchema(schemaText)
	if err != nil {
		return ""
	}
	hasRef := strings.Contains(schemaText, `"$ref"`)
	inst := parseInstance(instText)
	instBefore := deepSnap(inst)
	schBefore := jsonSnap(sch)
	var pan any
	var res *validate.Result
	func() {
		defer func() {
			if pan = recover(); pan != nil {
				resetPools()
			}
		}()
		switch mode {
		case 0:
			_ = validate.AgainstSchema(sch, inst, strfmt.Default)
		case 1:
			res = validate.NewSchemaValidator(sch, nil, "", strfmt.Default).Validate(inst)
		case 2:
			res = validate.NewSchemaValidator(sch, nil, "data", strfmt.Default, validate.SwaggerSchema(true), validate.WithRecycleValidators(true)).Validate(inst)
		case 3:
			v := validate.NewSchemaValidator(sch, nil, "", strfmt.Default, validate.WithSkipSchemataResult(true))
			res = v.Validate(inst)
			res = v.Validate(inst)
		}
	}()
	if pan != nil {
		return "" // C06's subject
	}
	_ = res
	if after := deepSnap(inst); after != instBefore {
		return fmt.Sprintf("the instance was modified: before %s, after %s", instBefore, after)
	}
	if !hasRef {
		if after := jsonSnap(sch); after != schBefore {
			return fmt.Sprintf("the schema (no $ref) was modified: before %s, after %s", schBefore, after)
		}
	}
	// the inputs of earlier calls are still the caller's: a later call (with other inputs) must not change
	// them either (a sub-schema of an earlier schema parked in a scratch pool and overwritten by the
	// next borrower shows only then). Everything used with the last 8 schemas is kept and re-examined
	// whenever the schema changes.
	if schemaText != c12lastText {
		c12lastText = schemaText
		c12gen++
		if msg := c12recheck(); msg != "" {
			return msg
		}
		keep := c12held[:0]
		for _, h := range c12held {
			if h.gen > c12gen-8 {
				keep = append(keep, h)
			}
		}
		c12held = keep
	}
	if !hasRef {
		c12held = append(c12held, c12hold{sch, schBefore, schemaText, inst, instBefore, c12gen})
	}
	return ""
}

type c12hold struct {
	sch      *spec.Schema
	schSnap  string
	text     string
	inst     any
	instSnap string
	gen      int
}

var (
	c12held     []c12hold
	c12lastText string
	c12gen      int
)

// c12recheck compares everything held with its snapshot.
func c12recheck() string {
	for _, h := range c12held {
		if after := jsonSnap(h.sch); after != h.schSnap {
			c12held = nil
			return fmt.Sprintf("an EARLIER schema (no $ref) %s was modified by a later call with other inputs: before %s, after %s", h.text, h.schSnap, after)
		}
		if after := deepSnap(h.inst); after != h.instSnap {
			c12held = nil
			return fmt.Sprintf("an EARLIER instance was modified by a later call with other inputs: before %s, after %s", h.instSnap, after)
		}
	}
	return ""
}

func c12paramCase(kind, def, val string) string {
	v := goValue(val)
	before := deepSnap(v)
	var defBefore, defAfter string
	var pan any
	func() {
		defer func() {
			if pan = recover(); pan != nil {
				resetPools()
			}
		}()
		if kind == "param" {
			p, _ := parseParam(def)
			defBefore = jsonSnap(p)
			validate.NewParamValidator(p, strfmt.Default).Validate(v)
			validate.NewParamValidator(p, strfmt.Default, validate.WithRecycleValidators(true)).Validate(v)
			defAfter = jsonSnap(p)
		} else {
			h := new(spec.Header)
			json.Unmarshal([]byte(def), h)
			defBefore = jsonSnap(h)
			validate.NewHeaderValidator("X-H", h, strfmt.Default).Validate(v)
			validate.NewHeaderValidator("X-H", h, strfmt.Default, validate.WithRecycleValidators(true)).Validate(v)
			defAfter = jsonSnap(h)
		}
	}()
	if pan != nil {
		return ""
	}
	if after := deepSnap(v); after != before {
		return fmt.Sprintf("the value was modified: before %s, after %s", before, after)
	}
	if defBefore != defAfter {
		return fmt.Sprintf("the %s definition was modified: before %s, after %s", kind, defBefore, defAfter)
	}
	return ""
}

// c12docCase validates a document (both modes) and compares raw bytes and parsed specification.
func c12docCase(docText string, cont bool) (diff string, accepted bool, loaded bool) {
	doc, err := loads.Analyzed(json.RawMessage(docText), "")
	if err != nil {
		return "", false, false
	}
	rawBefore := string(doc.Raw())
	specBefore := jsonSnap(doc.Spec())
	origBefore := jsonSnap(doc.OrigSpec())
	var pan any
	var valid bool
	func() {
		defer func() {
			if pan = recover(); pan != nil {
				resetPools()
			}
		}()
		sv := validate.NewSpecValidator(doc.Schema(), strfmt.Default)
		sv.SetContinueOnErrors(cont)
		errs, _ := sv.Validate(doc)
		valid = errs.IsValid()
	}()
	if pan != nil {
		return "", false, true // C07's subject
	}
	if string(doc.Raw()) != rawBefore {
		return "the raw bytes of the document were modified", valid, true
	}
	if valid && !selfReferential(docText) {
		if after := jsonSnap(doc.Spec()); after != specBefore {
			return fmt.Sprintf("the parsed specification of an accepted document was modified: %s", firstDiff(specBefore, after)), valid, true
		}
		if after := jsonSnap(doc.OrigSpec()); after != origBefore {
			return fmt.Sprintf("the original parsed specification of an accepted document was modified: %s", firstDiff(origBefore, after)), valid, true
		}
	}
	return "", valid, true
}

func firstDiff(a, b string) string {
	i := 0
	for i < len(a) && i < len(b) && a[i] == b[i] {
		i++
	}
	lo := i - 60
	if lo < 0 {
		lo = 0
	}
	ha, hb := i+80, i+80
	if ha > len(a) {
		ha = len(a)
	}
	if hb > len(b) {
		hb = len(b)
	}
	return fmt.Sprintf("before …%s… after …%s…", a[lo:ha], b[lo:hb])
}

// selfReferential tells whether some definition reaches itself through $ref.
func selfReferential(docText string) bool {
	var d map[string]any
	if json.Unmarshal([]byte(docText), &d) != nil {
		return true
	}
	defs, _ := d["definitions"].(map[string]any)
	refsOf := func(v any) []string {
		var out []string
		var walk func(x any)
		walk = func(x any) {
			switch t := x.(type) {
			case map[string]any:
				if r, ok := t["$ref"].(string); ok && strings.HasPrefix(r, "#/definitions/") {
					out = append(out, strings.TrimPrefix(r, "#/definitions/"))
				}
				for _, y := range t {
					walk(y)
				}
			case []any:
				for _, y := range t {
					walk(y)
				}
			}
		}
		walk(v)
		return out
	}
	for name := range defs {
		seen := map[string]bool{}
		stack := refsOf(defs[name])
		for len(stack) > 0 {
			n := stack[len(stack)-1]
			stack = stack[:len(stack)-1]
			if n == name {
				return true
			}
			if seen[n] {
				continue
			}
			seen[n] = true
			stack = append(stack, refsOf(defs[n])...)
		}
	}
	return false
}

func c12(c *hx.Ctx) int {
	if c.Worker >= 0 {
		return c12worker(c)
	}
	if c.Quick() {
		c.Budget = 200 * second
	} else {
		c.Budget = 1500 * second
	}
	rep := c.RunWorkers(16, 16)
	cov := map[string]any{
		"evaluations":         rep.Counters["calls"],
		"distinct_nontrivial": rep.Counters["nontrivial"],
		"documents":           rep.Counters["documents"],
		"documents_accepted":  rep.Counters["documents_accepted"],
		"rule":                "schema part: all single atoms and pairs (thorough: triples over base atoms) incl. atoms carrying defaults x 40 instances x 4 call modes (one-shot; plain validator; swagger options + recycling; skip-schemata, called twice); parameter/header part: all definition x value pairs of the C04 alphabets; document part: the C03 grammar corpus and the C09 corpus, both continue modes; snapshots before/after each call; non-trivial = the call reports at least one error or the schema carries a default (paths where the library builds scratch copies); all cases distinct by construction",
	}
	return hx.Finish(c, "exploration", rep, cov, []string{
		"snapshots: %#v of the instance (type preserving), JSON of the schema / definition / parsed specification, raw bytes of the document",
		"schemas containing $ref and documents with self-referential definitions are outside the claim (expanded in place by design)",
	})
}

func c12worker(c *hx.Ctx) int {
	rep := hx.NewReport()
	ord := 0
	mine := func() bool { ord++; return (ord-1)%c.Workers == c.Worker }
	reported := map[string]bool{}
	doSchema := func(schema string) {
		for _, it := range gen.Instances {
			nontrivial := strings.Contains(schema, `"default"`)
			for mode := 0; mode < 4; mode++ {
				rep.Inc("calls", 1)
				d := c12schemaCase(schema, it, mode)
				if d == "" {
					continue
				}
				kind := d[:strings.Index(d, ":")]
				s0 := shrink.Parse(schema).(map[string]any)
				i0 := shrink.Parse(it)
				ms, mi := shrink.Pair2(s0, i0, func(s map[string]any, i any) bool {
					return strings.HasPrefix(c12schemaCase(shrink.Text(s), shrink.Text(i), mode), kind)
				}, func(map[string]any, any) bool { return false }, 800)
				sig := fmt.Sprintf("%s ⊢ %s: %s", shrink.Text(ms), shrink.Text(mi), kind)
				if !reported[sig] {
					reported[sig] = true
					rep.AddViolation(hx.Violation{Signature: sig, What: fmt.Sprintf("schema %s, instance %s (call mode %d): %s", shrink.Text(ms), shrink.Text(mi), mode, c12schemaCase(shrink.Text(ms), shrink.Text(mi), mode)),
						Replay: map[string]any{"schema": shrink.Text(ms), "instance": shrink.Text(mi), "mode": mode}})
				}
			}
			if !nontrivial {
				if v, ok := refVerdict(schema, parseInstance(it)); ok && !v {
					nontrivial = true
				}
			}
			if nontrivial {
				rep.Inc("nontrivial", 1)
			}
		}
	}
	for _, a := range c12extraAtoms {
		if mine() {
			doSchema(a)
		}
	}
	gen.Schemas(1, 0, 1, func(_ int, s string) bool {
		if mine() {
			doSchema(s)
		}
		return true
	})
	gen.Schemas(2, 0, 1, func(o int, s string) bool {
		if c.Quick() && o%8 != 0 {
			return true // quick: an eighth of the pairs; thorough: all
		}
		if !mine() {
			return true
		}
		if c.Expired() {
			rep.Exhaustive = false
			return false
		}
		doSchema(s)
		return true
	})
	for _, a := range c12extraAtoms {
		for _, b := range gen.Atoms() {
			if s := gen.Merge(a, b); s != "" && mine() {
				doSchema(s)
			}
		}
	}
	// typed Go instances (structs, pointers, typed maps and slices): converted to a dynamic value by
	// the library, which must leave the caller's value alone
	if c.Worker == 0 {
		for _, a := range append(append([]string(nil), gen.BaseAtoms...), c12extraAtoms...) {
			for _, mk := range c12typed {
				v := mk()
				before := jsonSnap(v) + deepSnap(v)
				for mode := 0; mode < 2; mode++ {
					sch, err := parseSpecSchema(a)
					if err != nil {
						continue
					}
					func() {
						defer func() {
							if recover() != nil {
								resetPools()
							}
						}()
						if mode == 0 {
							_ = validate.AgainstSchema(sch, v, strfmt.Default)
						} else {
							validate.NewSchemaValidator(sch, nil, "", strfmt.Default).Validate(v)
						}
					}()
					rep.Inc("calls", 1)
				}
				if after := jsonSnap(v) + deepSnap(v); after != before {
					rep.AddViolation(hx.Violation{Signature: fmt.Sprintf("typed instance %T modified by schema %s", v, a), What: fmt.Sprintf("schema %s: the typed instance was modified: before %s, after %s", a, before, after), Replay: map[string]any{"schema": a}})
				}
			}
		}
	}
	// parameters and headers
	for _, p := range c04params {
		for _, v := range c04paramValues {
			if !mine() {
				continue
			}
			rep.Inc("calls", 2)
			if d := c12paramCase("param", p, v); d != "" {
				rep.AddViolation(hx.Violation{Signature: "param " + p + " ⊢ " + v, What: "parameter " + p + " value " + v + ": " + d, Replay: map[string]any{"param": p, "value": v}})
			}
		}
	}
	for _, h := range c04headers {
		for _, v := range c04paramValues {
			if !mine() {
				continue
			}
			rep.Inc("calls", 2)
			if d := c12paramCase("header", h, v); d != "" {
				rep.AddViolation(hx.Violation{Signature: "header " + h + " ⊢ " + v, What: "header " + h + " value " + v + ": " + d, Replay: map[string]any{"header": h, "value": v}})
			}
		}
	}
	// documents
	for _, doc := range c12documents(c.Quick()) {
		if !mine() {
			continue
		}
		if c.Expired() {
			rep.Exhaustive = false
			break
		}
		for _, cont := range []bool{false, true} {
			rep.Inc("calls", 1)
			d, accepted, loaded := c12docCase(doc, cont)
			if !loaded {
				continue
			}
			rep.Inc("documents", 1)
			if accepted {
				rep.Inc("documents_accepted", 1)
				rep.Inc("nontrivial", 1)
			}
			if d != "" {
				kind := d
				if i := strings.Index(d, ":"); i > 0 {
					kind = d[:i]
				}
				sig := "document: " + kind + " " + hx.Hash(doc)
				rep.AddViolation(hx.Violation{Signature: sig, What: fmt.Sprintf("document %s (continue-on-errors=%v): %s", doc, cont, d), Replay: map[string]any{"document": doc, "continue": cont}})
			}
		}
	}
	if c.Worker == 0 {
		rep.Samples = append(rep.Samples, map[string]any{"schema": c12extraAtoms[1], "instance": gen.Instances[28], "modes": 4})
	}
	hx.EmitWorkerReport(rep)
	return 0
}
