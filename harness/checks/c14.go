package checks

import (
	"context"
	"fmt"
	"hash/fnv"
	"math"
	"reflect"
	"sort"
	"strconv"
	"strings"
	"time"
	"unicode/utf8"

	"github.com/go-openapi/errors"
	"github.com/go-openapi/strfmt"
	"github.com/go-openapi/validate"

	"verif/harness/hx"
	"verif/harness/ref/helpers"
)

// C14 — the exported value helpers implement their textbook definitions for every input.
//
// Bounded-exhaustive enumeration: for every helper the full product of small argument alphabets is
// called on the library and on ref/helpers; "library returns an error" must equal "definition says
// violated". Every call is made twice on the same argument objects (same answer, arguments deep-equal
// to a fresh copy). A panic is a violation.
//
// Disagreements are grouped by root-cause class (helper, direction, coarse kinds of the two values
// that matter, how those two values relate) after shrinking lists to the one or two elements that
// matter; the smallest member of each class (alphabet order) is the signature.

func init() { Registry["C14"] = c14 }

// ---------------------------------------------------------------------------------------------
// alphabets

// c14val is one alphabet value: built fresh on every use so that no call can leak into another.
type c14val struct {
	name   string
	mk     func() interface{}
	noSnap bool // reflect.DeepEqual cannot compare two copies (functions, channels)
}

func c14v(name string, mk func() interface{}) c14val { return c14val{name: name, mk: mk} }

func c14const(name string, x interface{}) c14val {
	return c14val{name: name, mk: func() interface{} { return x }}
}

// c14values is the Enum / UniqueItems value alphabet, simplest first. The order is part of the
// signature canonicalisation: new values are only ever appended.
func c14values(thorough bool) []c14val {
	vs := []c14val{
		c14const("int 1", int(1)),
		c14const("float64 1", float64(1)),
		c14const("int8 1", int8(1)),
		c14const("int64 1", int64(1)),
		c14const("uint 1", uint(1)),
		c14const("uint8 1", uint8(1)),
		c14const("float32 1", float32(1)),
		c14const("float64 1.5", float64(1.5)),
		c14const("int 2", int(2)),
		c14const(`string "1"`, "1"),
		c14const(`string "A"`, "A"),
		c14const(`string "a"`, "a"),
		c14const("int 65", int(65)),
		c14const("nil", nil),
		c14const("(*int)(nil)", (*int)(nil)),
		c14v("[]int{1}", func() interface{} { return []int{1} }),
		c14v("[]interface{}{int 1}", func() interface{} { return []interface{}{1} }),
		c14v("[]interface{}{float64 1}", func() interface{} { return []interface{}{1.0} }),
		c14v(`map[string]int{"a":1}`, func() interface{} { return map[string]int{"a": 1} }),
		c14v(`map[string]interface{}{"a":int 1}`, func() interface{} { return map[string]interface{}{"a": 1} }),
		c14const("struct{A int}{1}", struct{ A int }{1}),
		c14const("bool true", true),
		// beyond the core list: values on which a conversion between Go types loses information
		c14const("int 257", int(257)),
		c14const("int64 9007199254740993", int64(1<<53+1)),
		c14const("float64 9007199254740992", float64(1<<53)),
		c14v("[]int{1, 2}", func() interface{} { return []int{1, 2} }),
		c14const("[2]int{1, 2}", [2]int{1, 2}),
	}
	if thorough {
		vs = append(vs,
			c14const("float32 1.5", float32(1.5)),
			c14const("int -1", int(-1)),
			c14const("uint64 18446744073709551615", uint64(math.MaxUint64)),
			c14const(`string "é"`, "é"),
			c14const(`string "É"`, "É"),
			c14v(`[]interface{}{string "a"}`, func() interface{} { return []interface{}{"a"} }),
			c14v("*int -> 1", func() interface{} { x := 1; return &x }),
			c14const("bool false", false),
		)
	}
	return vs
}

var c14strings = []string{"", "a", "é", "€€", "\xff", "a\xffb", "aé"}
var c14stringsThorough = []string{"aa", "aaa", "aaaa", "é", "\U0001F600", "\xe2\x82", "\x00", "ééé", "€€€", "a\n", "\xc0\x80"}

// the last three are not valid UTF-8 (no operator character in them: a literal-looking pattern is
// still a regular expression and must be compiled)
var c14patterns = []string{`^a`, `é`, `(`, ``, `a{2,1}`, `a+$`, "\xff", "a\xffb", "\xc3"}
var c14patternsThorough = []string{`^.$`, `^..$`, `\xff`, `(?i)A`, `[`, `\`, `^$`, `a|`, `(?s)^.$`}

func c14q(s string) string { return strconv.Quote(s) }

func c14strcat(s string) string {
	switch {
	case s == "":
		return "empty"
	case !validUTF8(s):
		return "invalid-utf8"
	case len(s) != len([]rune(s)):
		return "multibyte"
	}
	return "ascii"
}

func validUTF8(s string) bool { return utf8.ValidString(s) }

// ---------------------------------------------------------------------------------------------
// run state

type c14obs struct {
	Err   bool   `json:"error"`
	Msg   string `json:"message,omitempty"`
	Panic string `json:"panic,omitempty"`
}

func (o c14obs) String() string {
	switch {
	case o.Panic != "":
		return "panics: " + o.Panic
	case o.Err:
		return "returns error " + c14q(o.Msg)
	}
	return "returns no error"
}

func c14observe(call func() *errors.Validation) (o c14obs) {
	defer func() {
		if x := recover(); x != nil {
			o = c14obs{Panic: fmt.Sprint(x)}
		}
	}()
	if e := call(); e != nil {
		return c14obs{Err: true, Msg: e.Error()}
	}
	return c14obs{}
}

type c14case struct {
	helper    string
	sig       string // canonical text of the call
	call      func() *errors.Validation
	intact    func() bool // nil: arguments are immutable values
	violated  bool        // reference verdict
	specified bool        // false: the statement is silent, only purity and absence of panic are demanded
}

type c14fail struct {
	rank  []int
	v     hx.Violation
	cases int
}

type c14helperStat struct {
	Calls       int64 `json:"calls"`
	RefViolated int64 `json:"reference_violated"`
	Unspecified int64 `json:"oracle_skipped_unspecified"`
}

type c14run struct {
	evals      int64
	skipped    int64
	nontrivial map[uint64]struct{}
	fails      map[string]*c14fail
	stats      map[string]*c14helperStat
	firstBad   map[string]string // helper -> first case the reference calls violated
	firstOK    map[string]string
}

func c14hash(s string) uint64 {
	h := fnv.New64a()
	h.Write([]byte(s))
	return h.Sum64()
}

// kindOf evaluates one case without counting it: "" (agrees), accepts, rejects, panics, impure, mutated.
func c14kindOf(cs c14case) (kind string, o c14obs) {
	o = c14observe(cs.call)
	if o.Panic != "" {
		return "panics", o
	}
	o2 := c14observe(cs.call)
	if o2 != o {
		return "impure", o
	}
	if cs.intact != nil && !cs.intact() {
		return "mutated", o
	}
	if cs.specified && o.Err != cs.violated {
		if o.Err {
			return "rejects", o
		}
		return "accepts", o
	}
	return "", o
}

func (r *c14run) eval(cs c14case) (string, c14obs) {
	r.evals++
	st := r.stats[cs.helper]
	if st == nil {
		st = &c14helperStat{}
		r.stats[cs.helper] = st
	}
	st.Calls++
	if !cs.specified {
		r.skipped++
		st.Unspecified++
	} else if cs.violated {
		st.RefViolated++
		r.nontrivial[c14hash(cs.sig)] = struct{}{}
		if _, ok := r.firstBad[cs.helper]; !ok {
			r.firstBad[cs.helper] = cs.sig
		}
	} else if _, ok := r.firstOK[cs.helper]; !ok {
		r.firstOK[cs.helper] = cs.sig
	}
	return c14kindOf(cs)
}

func c14less(a, b []int) bool {
	for i := 0; i < len(a) && i < len(b); i++ {
		if a[i] != b[i] {
			return a[i] < b[i]
		}
	}
	return len(a) < len(b)
}

// fail records a disagreement under its root-cause class; the smallest rank represents the class.
func (r *c14run) fail(class string, rank []int, cs c14case, kind string, o c14obs, args map[string]any) {
	if kind == "mutated" || kind == "impure" {
		class = cs.helper + "|" + kind // whatever the arguments: one defect
	}
	f := r.fails[class]
	if f != nil && !c14less(rank, f.rank) {
		f.cases++
		return
	}
	n := 1
	if f != nil {
		n = f.cases + 1
	}
	want := "not violated"
	if cs.violated {
		want = "violated"
	}
	if !cs.specified {
		want = "unspecified"
	}
	var what string
	sig := cs.sig
	switch kind {
	case "panics":
		what = fmt.Sprintf("%s panics: %s", cs.sig, o.Panic)
		sig += " [panics]"
	case "impure":
		what = fmt.Sprintf("%s gives two different answers on two identical calls (first: %s)", cs.sig, o)
		sig += " [second call differs]"
	case "mutated":
		what = fmt.Sprintf("%s modifies its arguments", cs.sig)
		sig += " [arguments modified]"
	default:
		what = fmt.Sprintf("%s %s; by definition the constraint is %s", cs.sig, o, want)
	}
	r.fails[class] = &c14fail{rank: append([]int(nil), rank...), cases: n, v: hx.Violation{
		Signature: sig,
		What:      what,
		Replay: map[string]any{"helper": cs.helper, "call": cs.sig, "args": args, "library": o,
			"reference": want, "kind": kind, "class": class},
	}}
}

// relation says how two values relate, from the point of view of an equality predicate. It is what
// distinguishes one wrong notion of equality from another.
func c14relation(a, b interface{}) string {
	switch helpers.Equal(a, b, false) {
	case helpers.Yes:
		if reflect.TypeOf(a) == reflect.TypeOf(b) {
			return "identical"
		}
		return "equal values of different Go types"
	case helpers.Unspecified:
		return "unspecified"
	}
	if c14convEqual(a, b) {
		return "different, equal only after Go conversion of the first to the type of the second"
	}
	sa, oka := a.(string)
	sb, okb := b.(string)
	if oka && okb && strings.EqualFold(sa, sb) {
		return "different, equal up to letter case"
	}
	return "different"
}

func c14convEqual(a, b interface{}) (eq bool) {
	defer func() {
		if recover() != nil {
			eq = false
		}
	}()
	va, tb := reflect.ValueOf(a), reflect.TypeOf(b)
	if !va.IsValid() || tb == nil || !va.Type().ConvertibleTo(tb) {
		return false
	}
	return reflect.DeepEqual(va.Convert(tb).Interface(), b)
}

// ---------------------------------------------------------------------------------------------
// Enum / EnumCase

type c14list struct {
	name  string
	mk    func() interface{}
	elems []int    // rank of each element (index into the value alphabet; 1000+ for typed lists); nil: not decomposable
	vals  []c14val // the elements, parallel to elems
}

func c14listOf(vs []c14val, idx ...int) c14list {
	names := make([]string, len(idx))
	for i, k := range idx {
		names[i] = vs[k].name
	}
	ix := append([]int(nil), idx...)
	vals := make([]c14val, len(idx))
	for i, k := range idx {
		vals[i] = vs[k]
	}
	return c14list{
		name:  "[]interface{}{" + strings.Join(names, ", ") + "}",
		elems: ix,
		vals:  vals,
		mk: func() interface{} {
			l := make([]interface{}, len(ix))
			for i, k := range ix {
				l[i] = vs[k].mk()
			}
			return l
		},
	}
}

func c14special(name string, mk func() interface{}) c14list { return c14list{name: name, mk: mk} }

// c14typed is a typed slice ([]int{1, 2}); its elements are named so that a failure can be shrunk to
// the []interface{} list holding the one element (or the two elements) that matter.
func c14typed(name string, mk func() interface{}, elems ...c14val) c14list {
	l := c14list{name: name, mk: mk, vals: elems}
	for i := range elems {
		l.elems = append(l.elems, 1000+i)
	}
	return l
}

func c14ints(xs ...int) c14list {
	var vals []c14val
	var names []string
	for _, x := range xs {
		vals = append(vals, c14const("int "+strconv.Itoa(x), x))
		names = append(names, strconv.Itoa(x))
	}
	return c14typed("[]int{"+strings.Join(names, ", ")+"}", func() interface{} { return append([]int(nil), xs...) }, vals...)
}

func c14floats(xs ...float64) c14list {
	var vals []c14val
	var names []string
	for _, x := range xs {
		n := strconv.FormatFloat(x, 'g', -1, 64)
		vals = append(vals, c14const("float64 "+n, x))
		names = append(names, n)
	}
	return c14typed("[]float64{"+strings.Join(names, ", ")+"}", func() interface{} { return append([]float64(nil), xs...) }, vals...)
}

func c14strs(xs ...string) c14list {
	var vals []c14val
	var names []string
	for _, x := range xs {
		vals = append(vals, c14const("string "+c14q(x), x))
		names = append(names, c14q(x))
	}
	return c14typed("[]string{"+strings.Join(names, ", ")+"}", func() interface{} { return append([]string(nil), xs...) }, vals...)
}

// c14listOfVals builds the shrunk lists.
func c14listOfVals(vals ...c14val) c14list {
	names := make([]string, len(vals))
	for i, v := range vals {
		names[i] = v.name
	}
	vv := append([]c14val(nil), vals...)
	return c14list{
		name: "[]interface{}{" + strings.Join(names, ", ") + "}",
		vals: vv,
		mk: func() interface{} {
			l := make([]interface{}, len(vv))
			for i, v := range vv {
				l[i] = v.mk()
			}
			return l
		},
	}
}

var c14enumModes = []struct {
	helper string
	cs     bool
}{{"Enum", true}, {"EnumCase", true}, {"EnumCase", false}}

func c14enumCase(mode int, d c14val, l c14list) c14case {
	m := c14enumModes[mode]
	data, enum := d.mk(), l.mk()
	cs := c14case{helper: m.helper}
	if m.helper == "Enum" {
		cs.sig = "Enum(data=" + d.name + ", enum=" + l.name + ")"
		cs.call = func() *errors.Validation { return validate.Enum("p", "body", data, enum) }
	} else {
		cs.sig = "EnumCase(data=" + d.name + ", enum=" + l.name + ", caseSensitive=" + strconv.FormatBool(m.cs) + ")"
		cs.call = func() *errors.Validation { return validate.EnumCase("p", "body", data, enum, m.cs) }
	}
	cs.violated, cs.specified = helpers.EnumCase(data, enum, m.cs)
	cs.intact = func() bool { return reflect.DeepEqual(data, d.mk()) && reflect.DeepEqual(enum, l.mk()) }
	return cs
}

func (r *c14run) enums(vs []c14val, thorough bool) {
	var lists []c14list
	for i := range vs {
		lists = append(lists, c14listOf(vs, i))
	}
	for i := range vs {
		for j := range vs {
			lists = append(lists, c14listOf(vs, i, j))
		}
	}
	if thorough {
		for i := range vs {
			for j := range vs {
				for k := range vs {
					lists = append(lists, c14listOf(vs, i, j, k))
				}
			}
		}
	}
	specials := []c14list{
		c14special("[]interface{}{}", func() interface{} { return []interface{}{} }),
		c14special("[]interface{}(nil)", func() interface{} { return []interface{}(nil) }),
		c14special("[]int(nil)", func() interface{} { return []int(nil) }),
		c14ints(1, 2), c14floats(1, 1.5),
		c14typed("[]uint8{1, 65}", func() interface{} { return []uint8{1, 65} }, c14const("uint8 1", uint8(1)), c14const("uint8 65", uint8(65))),
		c14strs("A", "1"),
		c14typed("[][]int{{1}}", func() interface{} { return [][]int{{1}} }, c14v("[]int{1}", func() interface{} { return []int{1} })),
		c14typed("[]*int{nil}", func() interface{} { return []*int{nil} }, c14const("(*int)(nil)", (*int)(nil))),
		// not lists: the statement does not say what they mean; only purity and absence of panic are demanded
		c14special("nil", func() interface{} { return nil }),
		c14special("int 1", func() interface{} { return 1 }),
		c14special(`string "a"`, func() interface{} { return "a" }),
		c14special(`map[string]int{"a":1}`, func() interface{} { return map[string]int{"a": 1} }),
		c14special("[2]int{1, 2}", func() interface{} { return [2]int{1, 2} }),
		c14special("struct{A int}{1}", func() interface{} { return struct{ A int }{1} }),
		c14special("(*[]int)(nil)", func() interface{} { return (*[]int)(nil) }),
	}
	lists = append(lists, specials...)

	for di, d := range vs {
		for _, l := range lists {
			var kinds [3]string
			for mode := range c14enumModes {
				cs := c14enumCase(mode, d, l)
				kind, o := r.eval(cs)
				kinds[mode] = kind
				if kind == "" {
					continue
				}
				// EnumCase failing exactly like Enum (resp. like its case-sensitive self) on the same
				// arguments is the same defect seen through a wrapper: attributed once.
				if mode > 0 && kinds[mode-1] == kind {
					continue
				}
				r.enumFail(vs, mode, di, d, l, cs, kind, o)
			}
		}
	}
}

// c14foldStrings: letters whose simple case folding is not "lower-case both sides": three-way case
// orbits (σ ς Σ; k K and the Kelvin sign; s S ſ; µ μ Μ; θ ϑ Θ; ǆ ǅ Ǆ), letters whose lower case is
// not their fold (İ, ı), multi-letter upper cases that simple folding does NOT equate (ß / SS), and
// invalid UTF-8. "folds case" is read as Unicode simple case folding (strings.EqualFold), the only
// reading under which the relation is an equivalence on all of these.
var c14foldStrings = []string{"οδος", "ΟΔΟΣ", "οδοσ", "s", "S", "ſ", "k", "K", "\u212a", "µm", "μm", "ΜM", "θ", "ϑ", "Θ", "ǆ", "ǅ", "Ǆ",
	"i", "I", "İ", "ı", "ß", "ss", "SS", "é", "É", "a\xff", "A\xff"}

// enumFold asks EnumCase (both modes) and Enum for every ordered pair of the strings above, as a
// one-member []interface{} list and as a typed []string with a non-matching member in front.
func (r *c14run) enumFold() {
	var vs []c14val
	for _, x := range c14foldStrings {
		vs = append(vs, c14const("string "+c14q(x), x))
	}
	for di, d := range vs {
		for mi := range vs {
			lists := []c14list{c14listOf(vs, mi), c14strs("zz", c14foldStrings[mi])}
			for _, l := range lists {
				var kinds [3]string
				for mode := range c14enumModes {
					cs := c14enumCase(mode, d, l)
					kind, o := r.eval(cs)
					kinds[mode] = kind
					if kind == "" || (mode > 0 && kinds[mode-1] == kind) {
						continue
					}
					r.enumFail(vs, mode, 5000+di, d, l, cs, kind, o)
				}
			}
		}
	}
}

func (r *c14run) enumFail(vs []c14val, mode, di int, d c14val, l c14list, cs c14case, kind string, o c14obs) {
	m := c14enumModes[mode]
	modeName := fmt.Sprintf("%s/%v", m.helper, m.cs)
	args := map[string]any{"data": d.name, "enum": l.name, "caseSensitive": m.cs}
	if l.elems == nil {
		r.fail(modeName+"|"+kind+"|special|"+cs.sig, []int{3000, di}, cs, kind, o, args)
		return
	}
	// shrink the list to the single element that shows the same kind of failure
	for i, e := range l.elems {
		one := c14listOfVals(l.vals[i])
		ocs := c14enumCase(mode, d, one)
		if k, oo := c14kindOf(ocs); k == kind {
			a, b := d.mk(), l.vals[i].mk()
			class := strings.Join([]string{modeName, kind, helpers.ClassName(a), helpers.ClassName(b), c14relation(a, b)}, "|")
			r.fail(class, []int{di, e}, ocs, kind, oo, map[string]any{"data": d.name, "enum": one.name, "caseSensitive": m.cs})
			return
		}
	}
	// the failure needs the whole list: class by its shape
	pos := -1
	for i := range l.elems {
		if helpers.Equal(d.mk(), l.vals[i].mk(), !m.cs) == helpers.Yes {
			pos = i
			break
		}
	}
	class := fmt.Sprintf("%s|%s|list of %d, member at %d", modeName, kind, len(l.elems), pos)
	r.fail(class, append([]int{di}, l.elems...), cs, kind, o, args)
}

// ---------------------------------------------------------------------------------------------
// UniqueItems

func c14uniqueCase(name string, mk func() interface{}) c14case {
	data := mk()
	cs := c14case{helper: "UniqueItems", sig: "UniqueItems(data=" + name + ")"}
	cs.call = func() *errors.Validation { return validate.UniqueItems("p", "body", data) }
	cs.violated, cs.specified = helpers.UniqueItems(data)
	cs.intact = func() bool { return reflect.DeepEqual(data, mk()) }
	return cs
}

func (r *c14run) uniques(vs []c14val, thorough bool) {
	var lists []c14list
	lists = append(lists, c14listOf(vs))
	for i := range vs {
		lists = append(lists, c14listOf(vs, i))
	}
	for i := range vs {
		for j := range vs {
			lists = append(lists, c14listOf(vs, i, j))
		}
	}
	for i := range vs {
		for j := range vs {
			for k := range vs {
				lists = append(lists, c14listOf(vs, i, j, k))
			}
		}
	}
	if thorough {
		n := len(vs)
		if n > 24 {
			n = 24 // quadruples over the core values
		}
		for i := 0; i < n; i++ {
			for j := 0; j < n; j++ {
				for k := 0; k < n; k++ {
					for q := 0; q < n; q++ {
						lists = append(lists, c14listOf(vs, i, j, k, q))
					}
				}
			}
		}
	}
	p1, p2 := 1, 1
	specials := []c14list{
		c14special("[]interface{}(nil)", func() interface{} { return []interface{}(nil) }),
		c14special("[]int(nil)", func() interface{} { return []int(nil) }),
		c14special("[]int{}", func() interface{} { return []int{} }),
		c14ints(1, 1), c14ints(1, 2), c14ints(1, 2, 1), c14ints(2, 1, 1), c14ints(1, 2, 3, 1),
		c14floats(1, 1), c14floats(1, 1.5),
		c14strs("a", "a"), c14strs("a", "A"), c14strs("", ""), c14strs("a", "", "a"),
		c14typed("[]bool{true, false}", func() interface{} { return []bool{true, false} }, c14const("bool true", true), c14const("bool false", false)),
		c14typed("[]bool{true, true}", func() interface{} { return []bool{true, true} }, c14const("bool true", true), c14const("bool true", true)),
		c14special("[][]int{{1}, {1}}", func() interface{} { return [][]int{{1}, {1}} }),
		c14special("[][]int{{1}, {2}}", func() interface{} { return [][]int{{1}, {2}} }),
		c14special("[][]int{{1, 2}, {2, 1}}", func() interface{} { return [][]int{{1, 2}, {2, 1}} }),
		c14special(`[]map[string]int{{"a":1}, {"a":1}}`, func() interface{} { return []map[string]int{{"a": 1}, {"a": 1}} }),
		c14special(`[]map[string]int{{"a":1}, {"a":2}}`, func() interface{} { return []map[string]int{{"a": 1}, {"a": 2}} }),
		c14special(`[]map[string]int{{"a":1}, {"b":1}}`, func() interface{} { return []map[string]int{{"a": 1}, {"b": 1}} }),
		c14special("[]struct{A int}{{1}, {1}}", func() interface{} { return []struct{ A int }{{1}, {1}} }),
		c14special("[]struct{A int}{{1}, {2}}", func() interface{} { return []struct{ A int }{{1}, {2}} }),
		c14special("[]*int{&1, &1 (two pointers)}", func() interface{} { a, b := p1, p2; return []*int{&a, &b} }),
		c14special("[]*int{nil, nil}", func() interface{} { return []*int{nil, nil} }),
		// not slices: nothing to be unique
		c14special("nil", func() interface{} { return nil }),
		c14special("int 1", func() interface{} { return 1 }),
		c14special(`string "aa"`, func() interface{} { return "aa" }),
		c14special(`map[string]int{"a":1, "b":1}`, func() interface{} { return map[string]int{"a": 1, "b": 1} }),
		c14special("struct{A, B int}{1, 1}", func() interface{} { return struct{ A, B int }{1, 1} }),
		c14special("(*[]int)(nil)", func() interface{} { return (*[]int)(nil) }),
	}
	lists = append(lists, specials...)

	for _, l := range lists {
		cs := c14uniqueCase(l.name, l.mk)
		kind, o := r.eval(cs)
		if kind == "" {
			continue
		}
		args := map[string]any{"data": l.name}
		if l.elems == nil {
			r.fail("UniqueItems|"+kind+"|special|"+cs.sig, []int{3000}, cs, kind, o, args)
			continue
		}
		// shrink to the two elements that matter
		done := false
		for i := 0; i < len(l.elems) && !done; i++ {
			for j := i + 1; j < len(l.elems) && !done; j++ {
				two := c14listOfVals(l.vals[i], l.vals[j])
				tcs := c14uniqueCase(two.name, two.mk)
				if k, oo := c14kindOf(tcs); k == kind {
					a, b := l.vals[i].mk(), l.vals[j].mk()
					class := strings.Join([]string{"UniqueItems", kind, helpers.ClassName(a), helpers.ClassName(b), c14relation(a, b)}, "|")
					r.fail(class, []int{l.elems[i], l.elems[j]}, tcs, kind, oo, map[string]any{"data": two.name})
					done = true
				}
			}
		}
		if done {
			continue
		}
		// needs the whole slice: class by shape (length, positions of the first equal pair)
		pi, pj := -1, -1
		for i := 0; i < len(l.elems) && pi < 0; i++ {
			for j := i + 1; j < len(l.elems); j++ {
				if helpers.Equal(l.vals[i].mk(), l.vals[j].mk(), false) == helpers.Yes {
					pi, pj = i, j
					break
				}
			}
		}
		class := fmt.Sprintf("UniqueItems|%s|slice of %d, equal pair at (%d,%d)", kind, len(l.elems), pi, pj)
		r.fail(class, l.elems, cs, kind, o, args)
	}
}

// ---------------------------------------------------------------------------------------------
// strings, sizes

func (r *c14run) stringHelpers(strs, pats []string, lo, hi int64) {
	for si, s := range strs {
		s := s
		for lim := lo; lim <= hi; lim++ {
			lim := lim
			cs := c14case{helper: "MinLength", sig: fmt.Sprintf("MinLength(data=%s, min=%d)", c14q(s), lim), specified: true,
				violated: helpers.MinLength(s, lim),
				call:     func() *errors.Validation { return validate.MinLength("p", "body", s, lim) }}
			if kind, o := r.eval(cs); kind != "" {
				r.fail("MinLength|"+kind+"|"+c14strcat(s), []int{si, int(lim - lo)}, cs, kind, o, map[string]any{"data": s, "min": lim})
			}
			cs = c14case{helper: "MaxLength", sig: fmt.Sprintf("MaxLength(data=%s, max=%d)", c14q(s), lim), specified: true,
				violated: helpers.MaxLength(s, lim),
				call:     func() *errors.Validation { return validate.MaxLength("p", "body", s, lim) }}
			if kind, o := r.eval(cs); kind != "" {
				r.fail("MaxLength|"+kind+"|"+c14strcat(s), []int{si, int(lim - lo)}, cs, kind, o, map[string]any{"data": s, "max": lim})
			}
		}
		cs := c14case{helper: "RequiredString", sig: "RequiredString(data=" + c14q(s) + ")", specified: true,
			violated: helpers.RequiredString(s),
			call:     func() *errors.Validation { return validate.RequiredString("p", "body", s) }}
		if kind, o := r.eval(cs); kind != "" {
			r.fail("RequiredString|"+kind+"|"+c14strcat(s), []int{si}, cs, kind, o, map[string]any{"data": s})
		}
	}
	// Pattern: every order of (pattern, data) so that each expression is met both cold and cached
	for pi, p := range pats {
		p := p
		for si, s := range strs {
			s := s
			cs := c14case{helper: "Pattern", sig: "Pattern(data=" + c14q(s) + ", pattern=" + c14q(p) + ")", specified: true,
				violated: helpers.Pattern(s, p),
				call:     func() *errors.Validation { return validate.Pattern("p", "body", s, p) }}
			if kind, o := r.eval(cs); kind != "" {
				r.fail("Pattern|"+kind+"|"+p, []int{pi, si}, cs, kind, o, map[string]any{"data": s, "pattern": p})
			}
		}
	}
}

func c14cmp(a, b int64) string {
	switch {
	case a < b:
		return "size<limit"
	case a > b:
		return "size>limit"
	}
	return "size=limit"
}

func (r *c14run) sizes(lo, hi int64) {
	for size := lo; size <= hi; size++ {
		for lim := lo; lim <= hi; lim++ {
			size, lim := size, lim
			cs := c14case{helper: "MinItems", sig: fmt.Sprintf("MinItems(size=%d, min=%d)", size, lim), specified: true,
				violated: helpers.MinItems(size, lim),
				call:     func() *errors.Validation { return validate.MinItems("p", "body", size, lim) }}
			if kind, o := r.eval(cs); kind != "" {
				r.fail("MinItems|"+kind+"|"+c14cmp(size, lim), []int{int(size - lo), int(lim - lo)}, cs, kind, o, map[string]any{"size": size, "min": lim})
			}
			cs = c14case{helper: "MaxItems", sig: fmt.Sprintf("MaxItems(size=%d, max=%d)", size, lim), specified: true,
				violated: helpers.MaxItems(size, lim),
				call:     func() *errors.Validation { return validate.MaxItems("p", "body", size, lim) }}
			if kind, o := r.eval(cs); kind != "" {
				r.fail("MaxItems|"+kind+"|"+c14cmp(size, lim), []int{int(size - lo), int(lim - lo)}, cs, kind, o, map[string]any{"size": size, "max": lim})
			}
		}
	}
}

// ---------------------------------------------------------------------------------------------
// Required / ReadOnly / RequiredNumber

type c14ctxKey string

func c14zeroValues() []c14val {
	return []c14val{
		c14const("nil", nil),
		c14const("int 0", int(0)),
		c14const("int 1", int(1)),
		c14const("int8 0", int8(0)),
		c14const("int8 -1", int8(-1)),
		c14const("int64 0", int64(0)),
		c14const("uint 0", uint(0)),
		c14const("uint8 1", uint8(1)),
		c14const("float64 0", float64(0)),
		c14const("float64 1.5", float64(1.5)),
		c14const("float32 0", float32(0)),
		c14const("float32 1", float32(1)),
		c14const("complex128 (0+0i)", complex128(0)),
		c14const("complex128 (0+1i)", complex(0, 1)),
		c14const(`string ""`, ""),
		c14const(`string "a"`, "a"),
		c14const(`string "\x00"`, "\x00"),
		c14const("bool false", false),
		c14const("bool true", true),
		c14const("(*int)(nil)", (*int)(nil)),
		c14v("*int -> 0", func() interface{} { x := 0; return &x }),
		c14v("*int -> 1", func() interface{} { x := 1; return &x }),
		c14v(`*string -> ""`, func() interface{} { x := ""; return &x }),
		c14v("**int -> nil", func() interface{} { var x *int; return &x }),
		c14const("[]int(nil)", []int(nil)),
		c14v("[]int{}", func() interface{} { return []int{} }),
		c14v("[]int{0}", func() interface{} { return []int{0} }),
		c14v("[]int{1}", func() interface{} { return []int{1} }),
		c14const("[]interface{}(nil)", []interface{}(nil)),
		c14v("[]interface{}{}", func() interface{} { return []interface{}{} }),
		c14v("[]interface{}{nil}", func() interface{} { return []interface{}{nil} }),
		c14const("map[string]int(nil)", map[string]int(nil)),
		c14v("map[string]int{}", func() interface{} { return map[string]int{} }),
		c14v(`map[string]int{"a":1}`, func() interface{} { return map[string]int{"a": 1} }),
		c14v(`map[string]interface{}{"a":nil}`, func() interface{} { return map[string]interface{}{"a": nil} }),
		c14const("struct{}{}", struct{}{}),
		c14const("struct{A int}{0}", struct{ A int }{0}),
		c14const("struct{A int}{1}", struct{ A int }{1}),
		c14const("struct{a int}{1} (unexported field)", struct{ a int }{1}),
		c14const("struct{S []int}{nil}", struct{ S []int }{}),
		c14v("struct{S []int}{[]int{}}", func() interface{} { return struct{ S []int }{[]int{}} }),
		c14v("struct{S []int}{[]int{1}}", func() interface{} { return struct{ S []int }{[]int{1}} }),
		c14const("struct{I interface{}}{nil}", struct{ I interface{} }{}),
		c14const("struct{I interface{}}{int 0}", struct{ I interface{} }{0}),
		c14const("struct{I interface{}}{int 1}", struct{ I interface{} }{1}),
		c14const("[2]int{0, 0}", [2]int{}),
		c14const("[2]int{0, 1}", [2]int{0, 1}),
		c14const("[0]int{}", [0]int{}),
		c14const("time.Time{}", time.Time{}),
		c14const("time.Unix(1, 0).UTC()", time.Unix(1, 0).UTC()),
		c14const("strfmt.Date{}", strfmt.Date{}),
		c14const("(func())(nil)", (func())(nil)),
		{name: "func(){}", mk: func() interface{} { return func() {} }, noSnap: true},
		c14const("(chan int)(nil)", (chan int)(nil)),
		{name: "make(chan int)", mk: func() interface{} { return make(chan int) }, noSnap: true},
	}
}

type c14ctx struct {
	name string
	mk   func() context.Context
	req  helpers.Tri
}

func c14contexts() []c14ctx {
	bg := context.Background
	foreign := func(parent context.Context) context.Context {
		return context.WithValue(parent, c14ctxKey("operationTypeKey"), "request")
	}
	return []c14ctx{
		{"Background", bg, helpers.No},
		{"WithOperationRequest(Background)", func() context.Context { return validate.WithOperationRequest(bg()) }, helpers.Yes},
		{"WithOperationResponse(Background)", func() context.Context { return validate.WithOperationResponse(bg()) }, helpers.No},
		{`WithValue(Background, foreignKeyType("operationTypeKey"), "request")`, func() context.Context { return foreign(bg()) }, helpers.No},
		{`WithValue(Background, string "operationTypeKey", "request")`, func() context.Context {
			return context.WithValue(bg(), "operationTypeKey", "request") //nolint:staticcheck // a foreign key on purpose
		}, helpers.No},
		{"TODO", context.TODO, helpers.No},
		{"WithOperationRequest(WithValue(Background, foreignKey, ...))", func() context.Context { return validate.WithOperationRequest(foreign(bg())) }, helpers.Yes},
		{"WithValue(WithOperationRequest(Background), foreignKey, ...)", func() context.Context { return foreign(validate.WithOperationRequest(bg())) }, helpers.Yes},
		{"WithValue(WithOperationResponse(Background), foreignKey, ...)", func() context.Context { return foreign(validate.WithOperationResponse(bg())) }, helpers.No},
		// marked twice: the statement does not say which mark counts
		{"WithOperationRequest(WithOperationResponse(Background))", func() context.Context { return validate.WithOperationRequest(validate.WithOperationResponse(bg())) }, helpers.Unspecified},
		{"WithOperationResponse(WithOperationRequest(Background))", func() context.Context { return validate.WithOperationResponse(validate.WithOperationRequest(bg())) }, helpers.Unspecified},
	}
}

const c14plainRequest = 1 // index of WithOperationRequest(Background) in c14contexts

func (r *c14run) zeroHelpers() {
	vals := c14zeroValues()
	ctxs := c14contexts()
	for vi, v := range vals {
		v := v
		data := v.mk()
		zero := helpers.IsZero(data)
		intact := func() bool { return reflect.DeepEqual(data, v.mk()) }
		if v.noSnap {
			intact = nil
		}
		cs := c14case{helper: "Required", sig: "Required(data=" + v.name + ")", intact: intact,
			call: func() *errors.Validation { return validate.Required("p", "body", data) }}
		cs.violated, cs.specified = helpers.Required(data)
		if kind, o := r.eval(cs); kind != "" {
			class := fmt.Sprintf("Required|%s|%s|zero=%v", kind, helpers.ClassName(data), zero)
			r.fail(class, []int{vi}, cs, kind, o, map[string]any{"data": v.name})
		}
		for ci, cx := range ctxs {
			cx := cx
			ctx := cx.mk()
			cs := c14case{helper: "ReadOnly", sig: "ReadOnly(ctx=" + cx.name + ", data=" + v.name + ")", intact: intact,
				call: func() *errors.Validation { return validate.ReadOnly(ctx, "p", "body", data) }}
			if cx.req != helpers.Unspecified {
				cs.violated, cs.specified = helpers.ReadOnly(cx.req == helpers.Yes, data)
			}
			if kind, o := r.eval(cs); kind != "" {
				// Outside a request the value is irrelevant: the class is the context. Inside a request the
				// class is the kind of value, and the context only if the plain request context behaves.
				class := fmt.Sprintf("ReadOnly|%s|ctx %d", kind, ci)
				rank := []int{ci, vi}
				if cx.req == helpers.Yes {
					class = fmt.Sprintf("ReadOnly|%s|request|%s|zero=%v", kind, helpers.ClassName(data), zero)
					if ci != c14plainRequest {
						plain := cs
						pctx := ctxs[c14plainRequest].mk()
						plain.call = func() *errors.Validation { return validate.ReadOnly(pctx, "p", "body", data) }
						if k, _ := c14kindOf(plain); k != kind {
							class += fmt.Sprintf("|ctx %d", ci)
						}
					}
				}
				r.fail(class, rank, cs, kind, o, map[string]any{"ctx": cx.name, "data": v.name})
			}
		}
	}
	for fi, f := range []float64{0, 1, -1, 1.5, 5e-324, 1e300, math.Inf(1), math.Inf(-1), math.NaN()} {
		f := f
		cs := c14case{helper: "RequiredNumber", sig: fmt.Sprintf("RequiredNumber(data=float64 %v)", f), specified: true,
			violated: helpers.RequiredNumber(f),
			call:     func() *errors.Validation { return validate.RequiredNumber("p", "body", f) }}
		if kind, o := r.eval(cs); kind != "" {
			r.fail("RequiredNumber|"+kind+"|"+cs.sig, []int{fi}, cs, kind, o, map[string]any{"data": fmt.Sprint(f)})
		}
	}
}

// ---------------------------------------------------------------------------------------------
// FormatOf

// c14even is the one format of the custom registry: strings of even length.
type c14even string

func (e c14even) String() string                { return string(e) }
func (e c14even) MarshalText() ([]byte, error)  { return []byte(e), nil }
func (e *c14even) UnmarshalText(b []byte) error { *e = c14even(b); return nil }

func (r *c14run) formats() {
	custom := strfmt.NewSeededFormats(nil, nil)
	var ev c14even
	custom.Add("even", &ev, func(s string) bool { return len(s)%2 == 0 })
	regs := []struct {
		name string
		reg  strfmt.Registry
	}{
		{"strfmt.Default", strfmt.Default},
		{"custom{even}", custom},
		{"nil", nil},
	}
	fmts := []string{"date", "unknownformat", "", "even", "date-time", "datetime", "uuid", "DATE"}
	datas := []string{"2020-01-01", "2020-13-01", "", "ab", "abc", "2020-01-01T00:00:00Z", "\xff", "a8098c1a-f86e-11da-bd1a-00112444be1e"}
	for ri, rg := range regs {
		rg := rg
		for fi, f := range fmts {
			f := f
			for di, d := range datas {
				d := d
				cs := c14case{helper: "FormatOf", sig: "FormatOf(format=" + c14q(f) + ", data=" + c14q(d) + ", registry=" + rg.name + ")",
					call: func() *errors.Validation { return validate.FormatOf("p", "body", f, d, rg.reg) }}
				cs.violated, cs.specified = helpers.FormatOf(f, d, rg.reg)
				if kind, o := r.eval(cs); kind != "" {
					class := fmt.Sprintf("FormatOf|%s|registry %d|%s", kind, ri, f)
					r.fail(class, []int{fi, di}, cs, kind, o, map[string]any{"format": f, "data": d, "registry": rg.name})
				}
			}
		}
	}
}

// ---------------------------------------------------------------------------------------------

func c14(c *hx.Ctx) int {
	thorough := !c.Quick()
	rep := hx.NewReport()
	r := &c14run{nontrivial: map[uint64]struct{}{}, fails: map[string]*c14fail{}, stats: map[string]*c14helperStat{},
		firstBad: map[string]string{}, firstOK: map[string]string{}}

	strs := append([]string(nil), c14strings...)
	pats := append([]string(nil), c14patterns...)
	lo, hi := int64(-1), int64(3)
	if thorough {
		strs = append(strs, c14stringsThorough...)
		pats = append(pats, c14patternsThorough...)
		lo, hi = -2, 8
	}
	vs := c14values(thorough)

	r.stringHelpers(strs, pats, lo, hi)
	r.sizes(lo, hi)
	r.zeroHelpers()
	r.formats()
	r.enums(vs, thorough)
	r.enumFold()
	r.uniques(vs, thorough)

	classes := make([]string, 0, len(r.fails))
	for k := range r.fails {
		classes = append(classes, k)
	}
	sort.Strings(classes)
	for _, k := range classes {
		f := r.fails[k]
		if m, ok := f.v.Replay.(map[string]any); ok {
			m["cases_in_class"] = f.cases
		}
		rep.AddViolation(f.v)
	}

	// vacuity: every helper must have been seen both satisfied and violated by the reference
	helpersSeen := make([]string, 0, len(r.stats))
	for h := range r.stats {
		helpersSeen = append(helpersSeen, h)
	}
	sort.Strings(helpersSeen)
	for _, h := range helpersSeen {
		if r.firstBad[h] == "" || r.firstOK[h] == "" {
			rep.HarnessErr = "vacuous enumeration: helper " + h + " was not seen both violated and satisfied"
		}
	}
	if len(helpersSeen) != 13 {
		rep.HarnessErr = fmt.Sprintf("expected 13 helpers, enumerated %d", len(helpersSeen))
	}
	for _, h := range []string{"MinLength", "Pattern", "EnumCase", "UniqueItems", "Required", "ReadOnly", "FormatOf"} {
		if s := r.firstBad[h]; s != "" {
			rep.Samples = append(rep.Samples, s+" => violated")
		}
	}
	rep.Samples = append(rep.Samples, r.firstOK["Enum"]+" => not violated")

	perHelper := map[string]any{}
	for _, h := range helpersSeen {
		perHelper[h] = r.stats[h]
	}
	cov := map[string]any{
		"evaluations":                r.evals,
		"distinct_nontrivial":        len(r.nontrivial),
		"oracle_skipped_unspecified": r.skipped,
		"per_helper":                 perHelper,
		"value_alphabet":             len(vs),
		"string_alphabet":            len(strs),
		"root_cause_classes_failing": len(r.fails),
		"rule": "for each of the 13 helpers, the full product of its argument alphabets (nested loops, nothing random); " +
			"library returns a non-nil *errors.Validation <=> ref/helpers says violated; every call made twice on the same " +
			"argument objects (same answer, arguments deep-equal to a fresh copy); a panic is a violation; disagreements are " +
			"shrunk to the one or two values that matter and grouped by (helper, direction, kinds, relation of the two values)",
	}
	return hx.Finish(c, "exploration", rep, cov, []string{
		"the oracle is silent (only purity and absence of panic are demanded) where the statement does not decide: " +
			"untyped nil against a typed nil; numbers of different Go types or case-differing strings nested inside containers; " +
			"containers with equal contents but different Go types ([]int{1} vs []interface{}{1}, slice vs array, struct vs map); " +
			"nil against empty slice or map; a pointer against its pointee",
		"Required/ReadOnly: silent for a non-nil but empty slice or map, for a non-nil pointer or interface holding a zero value, and for aggregates of those; " +
			"a non-empty slice or map, a pointer to a non-zero value, a non-nil func or chan are non-zero",
		"Enum/EnumCase with an enum argument that is not a slice: silent; an empty or nil slice has no members",
		"UniqueItems on something that is not a slice: nothing to violate",
		"FormatOf with a nil registry: silent (the statement names no fallback); the registry's own name normalisation belongs to the registry",
		"ReadOnly: a context marked both request and response is left out; a nil context is outside the caller contract of package context",
		"case folding is strings.EqualFold on the alphabet {A, a, é, É}; NaN, negative zero and values of distinct named types are not enumerated",
		"the compiled-expression cache of Pattern is exercised only sequentially here (cold, then cached); concurrency is C15's subject",
	})
}
