package checks

import (
	"fmt"
	"github.com/go-openapi/validate"
	"strings"

	"github.com/go-openapi/spec"
	"github.com/go-openapi/strfmt"
	"github.com/go-openapi/validate/verifrt"

	"verif/harness/gen"
	"verif/harness/hx"
	"verif/harness/ref/draft4"
	"verif/harness/shrink"
)

// C01 — verdicts agree with draft 4; both entry points agree.

func init() { Registry["C01"] = c01 }

// schemaCase caches the decoded forms of one schema text. The library's schema is decoded once and
// reused only when the text has no $ref (the library expands references in place).
type schemaCase struct {
	text   string
	ref    map[string]any
	sch    *spec.Schema
	hasRef bool
}

var caseCache = map[string]*schemaCase{}

func getCase(text string) *schemaCase {
	if c, ok := caseCache[text]; ok {
		return c
	}
	if len(caseCache) > 20000 {
		caseCache = map[string]*schemaCase{}
	}
	c := &schemaCase{text: text, hasRef: strings.Contains(text, `"$ref"`)}
	c.ref, _ = draft4.ParseSchema(text)
	if !c.hasRef {
		c.sch, _ = parseSpecSchema(text)
	}
	caseCache[text] = c
	return c
}

func (c *schemaCase) spec() *spec.Schema {
	if c.sch != nil {
		return c.sch
	}
	s, _ := parseSpecSchema(c.text)
	return s
}

// curRegistry is the format registry supplied to both the library and the reference. Schemas that
// use a format are evaluated under two registries that give different answers for every format name
// (strfmt.Default knows date/email/uuid but not x-even; customRegistry knows only x-even).
var curRegistry strfmt.Registry = strfmt.Default

type evenFormat string

func (e evenFormat) String() string                { return string(e) }
func (e evenFormat) MarshalText() ([]byte, error)  { return []byte(e), nil }
func (e *evenFormat) UnmarshalText(b []byte) error { *e = evenFormat(b); return nil }

var customRegistry = func() strfmt.Registry {
	r := strfmt.NewFormats()
	for _, n := range []string{"date", "email", "uuid"} {
		r.DelByName(n)
	}
	var e evenFormat
	r.Add("x-even", &e, func(s string) bool { return len(s)%2 == 0 })
	return r
}()

// refVerdict evaluates with the reference model. ok=false when the reference cannot judge the pair
// (outside its domain); such pairs are skipped and counted.
func refVerdict(schemaText string, inst any) (valid bool, ok bool) {
	c := getCase(schemaText)
	if c.ref == nil {
		return false, false
	}
	defer func() {
		if recover() != nil {
			ok = false
		}
	}()
	ev := &draft4.Evaluator{Root: c.ref, Formats: curRegistry}
	return ev.Valid(c.ref, inst), true
}

// c01disagree is the failure predicate: the library (either entry point) differs from the reference,
// or the two entry points differ. Returns a description or "".
func c01disagree(schemaText string, instText string) string {
	inst := parseInstance(instText)
	want, ok := refVerdict(schemaText, inst)
	if !ok {
		return ""
	}
	c := getCase(schemaText)
	o1 := againstSpec(c.spec(), inst, curRegistry)
	o2, _ := validatorSpec(c.spec(), inst, "", curRegistry)
	if o1.Panic != "" {
		return "one-shot entry point panics: " + o1.Panic
	}
	if o2.Panic != "" {
		return "validator object panics: " + o2.Panic
	}
	if o1.Valid != o2.Valid {
		return fmt.Sprintf("entry points differ: one-shot valid=%v, validator object valid=%v", o1.Valid, o2.Valid)
	}
	if o1.Valid != want {
		return fmt.Sprintf("library valid=%v, draft-4 valid=%v", o1.Valid, want)
	}
	// the public option that switches the schemata bookkeeping off must not touch the verdict
	o3, _ := validatorSpec(c.spec(), inst, "", curRegistry, validate.WithSkipSchemataResult(true))
	if o3.Panic != "" {
		return "validator object panics: " + o3.Panic
	}
	if o3.Valid != o1.Valid {
		return fmt.Sprintf("entry points differ: one-shot valid=%v, validator object with WithSkipSchemataResult valid=%v", o1.Valid, o3.Valid)
	}
	return ""
}

// c01kind abstracts a disagreement description so that shrinking keeps the same kind of failure.
func c01kind(d string) string {
	switch {
	case d == "":
		return ""
	case strings.Contains(d, "panics"):
		return "panic"
	case strings.HasPrefix(d, "entry points"):
		return "entry"
	case strings.HasPrefix(d, "library valid=true"):
		return "accepts"
	default:
		return "rejects"
	}
}

func c01shrink(schemaText, instText string) (string, string, string) {
	st, it := schemaText, instText
	// a projection may flip the kind of failure (a wrongly accepted branch of not/oneOf makes the
	// parent wrongly reject): re-derive the kind and shrink again until nothing changes
	for round := 0; round < 6; round++ {
		kind := c01kind(c01disagree(st, it))
		if kind == "" {
			break
		}
		s0 := shrink.Parse(st).(map[string]any)
		i0 := shrink.Parse(it)
		ms, mi := shrink.Pair2(s0, i0, func(s map[string]any, i any) bool {
			return c01kind(c01disagree(shrink.Text(s), shrink.Text(i))) == kind
		}, func(s map[string]any, i any) bool {
			k := c01kind(c01disagree(shrink.Text(s), shrink.Text(i)))
			return k == "accepts" || k == "rejects" || (k != "" && k == kind)
		}, 3000)
		nst, nit := shrink.Text(ms), shrink.Text(mi)
		if nst == st && nit == it {
			break
		}
		st, it = nst, nit
	}
	return st, it, c01disagree(st, it)
}

func c01(c *hx.Ctx) int {
	sizes := []int{1, 2}
	if !c.Quick() {
		sizes = []int{1, 2, 3}
	}
	if len(c.Args) == 3 && c.Args[0] == "--shrink" {
		fmt.Println(c01disagree(c.Args[1], c.Args[2]))
		fmt.Println(c01shrink(c.Args[1], c.Args[2]))
		return 0
	}
	if c.Worker >= 0 {
		return c01worker(c, sizes)
	}
	c.Budget = c01budget(c)
	agree, skipped, bad, err := draft4.Conformance("/repo/fixtures/jsonschema_suite", strfmt.Default)
	if err != nil || len(bad) > 0 || agree < 250 {
		fmt.Printf("HARNESS-ERROR reference model fails its conformance run: agree=%d bad=%v err=%v\n", agree, bad, err)
		return 2
	}
	rep := c.RunWorkers(16, 16)
	cov := map[string]any{
		"evaluations":         rep.Counters["pairs"],
		"distinct_nontrivial": rep.Counters["ref_invalid_pairs"],
		"rule": "all conjunctions of <= " + fmt.Sprint(sizes[len(sizes)-1]) + " schema atoms (" + fmt.Sprint(len(gen.Atoms())) + " atoms, slots filled from leaf schemas) x " + fmt.Sprint(len(gen.Instances)) +
			" instances, each through AgainstSchema and NewSchemaValidator(...).Validate on a non-reset pool under two map-order policies; a pair is non-trivial when the reference verdict is invalid; every pair is distinct by construction",
		"schemas":                        rep.Counters["schemas"],
		"reference_conformance_ok":       agree,
		"reference_conformance_skip":     skipped,
		"pairs_outside_reference":        rep.Counters["ref_skipped"],
		"disagreeing_pairs":              rep.Counters["disagreements"],
		"distinct_minimal_disagreements": len(rep.Violations),
	}
	return hx.Finish(c, "exploration", rep, cov, []string{
		"reference evaluator ref/draft4 (pinned by the draft-4 test-suite files shipped in the repository) is the oracle",
		"instances are what encoding/json yields (float64 numbers); numbers only from the alphabet",
		"default/x-nullable/id and siblings of $ref are outside the vocabulary of the property",
	})
}

func c01budget(c *hx.Ctx) (d durationT) {
	if c.Quick() {
		return 240 * second
	}
	return 1500 * second
}

func c01worker(c *hx.Ctx, sizes []int) int {
	rep := hx.NewReport()
	shrunk := map[string]bool{}
	for _, k := range sizes {
		gen.Schemas(k, c.Worker, c.Workers, func(ord int, schema string) bool {
			if c.Expired() {
				rep.Exhaustive = false
				return false
			}
			rep.Inc("schemas", 1)
			hx.AnnounceCase(schema)
			npol := 2
			if c.Quick() && k > 1 {
				npol = 1 // quick tier: the second map-order policy only for single atoms
			}
			usesFormat := strings.Contains(schema, `"format"`)
			for pol := 0; pol < npol; pol++ {
				p := 0
				if pol == 1 {
					p = 1 + ord%7
				}
				verifrt.SetMapPolicy(p)
				for _, it := range gen.Instances {
					if pol == 0 {
						rep.Inc("pairs", 1)
						if v, ok := refVerdict(schema, parseInstance(it)); ok && !v {
							rep.Inc("ref_invalid_pairs", 1)
						} else if !ok {
							rep.Inc("ref_skipped", 1)
						}
					}
					d := c01disagree(schema, it)
					if d == "" && usesFormat {
						// the same pair again with the other registry (a format name then gets the
						// other answer within the same process), and back
						curRegistry = customRegistry
						if d = c01disagree(schema, it); d != "" {
							d += " (format registry: custom, knows only x-even)"
						} else {
							curRegistry = strfmt.Default
						}
					}
					if d == "" {
						continue
					}
					rep.Inc("disagreements", 1)
					custom := curRegistry == customRegistry
					key := schema + "\x00" + it + fmt.Sprint(custom)
					if shrunk[key] {
						curRegistry = strfmt.Default
						continue
					}
					shrunk[key] = true
					verifrt.SetMapPolicy(0)
					ms, mi, md := c01shrink(schema, it)
					verifrt.SetMapPolicy(p)
					if md == "" {
						rep.Notes = append(rep.Notes, fmt.Sprintf("shrink of %s / %s ended at %s / %s which does not disagree; again: %q %q", schema, it, ms, mi, c01disagree(ms, mi), c01disagree(schema, it)))
						// only fails under this map-order policy: keep the original pair
						ms, mi, md = schema, it, d+fmt.Sprintf(" (map-order policy %d)", p)
					}
					sig := ms + " ⊢ " + mi
					if custom {
						sig += " (custom format registry)"
						md += " (format registry: custom, knows only x-even)"
					}
					curRegistry = strfmt.Default
					rep.AddViolation(hx.Violation{
						Signature: sig,
						What:      fmt.Sprintf("schema %s, instance %s: %s", ms, mi, md),
						Replay:    map[string]any{"schema": ms, "instance": mi, "found_as_schema": schema, "found_as_instance": it, "map_policy": p, "custom_registry": custom},
					})
				}
			}
			if len(rep.Samples) < 3 && ord%97 == 0 {
				rep.Samples = append(rep.Samples, map[string]any{"schema": schema, "instance": gen.Instances[ord%len(gen.Instances)]})
			}
			return true
		})
	}
	verifrt.SetMapPolicy(0)
	hx.EmitWorkerReport(rep)
	return 0
}
