package checks

import (
	"encoding/json"
	"fmt"
	"sort"
	"strings"

	"github.com/go-openapi/validate"
	"github.com/go-openapi/validate/verifrt"

	"verif/harness/gen"
	"verif/harness/hx"
)

// C04 — recycling never changes an outcome, whatever came before.
//
// The free multisets of the pool shim are the state; which free object a Get hands out is a choice.
// Layer 1 enumerates two-step histories (dirtying call, observed call) for every pair of one-keyword
// schemas / parameter definitions, exploring every single deviation from the default hand-out inside
// the observed call. Layer 2 enumerates all sequences over a small operation alphabet that mixes the
// entry points (one-shot, recycling schema/param/header validators, whole-spec validation).
// Oracle: each call's outcome equals its solo outcome (fresh pools, nothing ever reused).

func init() { Registry["C04"] = c04 }

var soloCache = map[string]hx.Outcome{}

func opKey(o Op) string {
	return o.Kind + "\x00" + o.Def + "\x00" + o.Val + "\x00" + o.Root + "\x00" + o.Reg + "\x00" + o.Opts
}

// soloOutcome is the reference: the op alone, on fresh pools, with recycling neutralised (every Get
// returns a new object).
func soloOutcome(o Op) hx.Outcome {
	k := opKey(o)
	if v, ok := soloCache[k]; ok {
		return v
	}
	resetPools()
	verifrt.Install(nil)
	verifrt.SetPoolPolicy(verifrt.PolicyFresh)
	out := o.Run()
	verifrt.SetPoolPolicy(verifrt.PolicyLIFO)
	if out.Panic != "" {
		resetPools()
	}
	if len(soloCache) > 200000 {
		soloCache = map[string]hx.Outcome{}
	}
	soloCache[k] = out
	return out
}

// runHistory executes ops on fresh pools under a default policy; Get choices are recorded/explored
// from op index exploreFrom on.
func runHistory(ops []Op, policy int, prefix []int, exploreFrom int, classify bool) ([]hx.Outcome, verifrt.Trace) {
	resetPools()
	verifrt.SetPoolPolicy(policy)
	outs := make([]hx.Outcome, len(ops))
	var d *verifrt.Driver
	for i, o := range ops {
		if i == exploreFrom {
			d = &verifrt.Driver{Prefix: prefix, MaxPoints: 100000}
			d.Enabled[verifrt.KPool] = true
			verifrt.Install(d)
		}
		outs[i] = o.Run()
	}
	var t verifrt.Trace
	if d != nil {
		t = d.TraceOf()
	}
	verifrt.Install(nil)
	verifrt.SetPoolPolicy(verifrt.PolicyLIFO)
	return outs, t
}

func outcomeDiff(got, want hx.Outcome) string {
	if got.Key() == want.Key() {
		return ""
	}
	if got.Panic != want.Panic {
		return fmt.Sprintf("panic %q, alone %q", got.Panic, want.Panic)
	}
	if got.Valid != want.Valid {
		return fmt.Sprintf("verdict valid=%v, alone valid=%v (errors %v, alone %v)", got.Valid, want.Valid, got.Errors, want.Errors)
	}
	if hx.JSON(got.Errors) != hx.JSON(want.Errors) {
		return fmt.Sprintf("errors %v, alone %v", got.Errors, want.Errors)
	}
	return fmt.Sprintf("warnings %v, alone %v", got.Warnings, want.Warnings)
}

// exploreHistory runs the history under LIFO (with all single Get deviations inside the ops from
// exploreFrom on when bound > 0) and FIFO, comparing every outcome with its solo outcome.
func exploreHistory(ops []Op, exploreFrom, bound int, rep *hx.Report, sets *hx.SetAdder, layer string) {
	want := make([]hx.Outcome, len(ops))
	for i, o := range ops {
		want[i] = soloOutcome(o)
		if want[i].Panic != "" {
			rep.Inc("histories_skipped_solo_panic", 1)
			return
		}
	}
	report := func(policy string, prefix []int, i int, diff string) {
		min := shrinkHistory(ops, i)
		var ps []string
		for _, o := range min {
			ps = append(ps, o.String())
		}
		rep.AddViolation(hx.Violation{
			Signature: layer + ": " + strings.Join(ps, " ; "),
			What:      fmt.Sprintf("after %d earlier call(s) the call %s gives %s", len(min)-1, min[len(min)-1], diff),
			Replay:    map[string]any{"ops": ops, "policy": policy, "pool_choices": prefix, "observed_index": i, "diff": diff, "minimal_history": min},
		})
	}
	check := func(policy string, prefix []int, outs []hx.Outcome) bool {
		rep.Inc("executions", 1)
		// invariant of every reached state: the shared "valid" result the validators hand out instead
		// of a fresh one is never modified and never pooled
		if d := validate.VerifSentinelState(); d != "" {
			report(policy, prefix, len(ops)-1, "a modified shared sentinel result (emptyResult: "+d+"): every later validation that returns or merges it is affected")
			return false
		}
		for i := range ops {
			sets.Add("outcomes", outs[i].Key())
			if d := outcomeDiff(outs[i], want[i]); d != "" {
				report(policy, prefix, i, d)
				return false
			}
		}
		return true
	}
	var lastOuts []hx.Outcome
	failed := false
	_, capped, err := verifrt.Explore(bound, 20000, func(prefix []int) verifrt.Trace {
		outs, t := runHistory(ops, verifrt.PolicyLIFO, prefix, exploreFrom, true)
		lastOuts = outs
		rep.Inc("pool_choice_points", int64(len(t.Points)))
		return t
	}, func(prefix []int, t verifrt.Trace) bool {
		if !check("LIFO", prefix, lastOuts) {
			failed = true
			return false // one counterexample per history is enough
		}
		return true
	})
	if capped {
		rep.Exhaustive = false
		rep.Inc("histories_capped", 1)
	}
	if err != nil {
		rep.HarnessErr = err.Error()
	}
	if failed {
		rep.Inc("histories", 1)
		return
	}
	outs, _ := runHistory(ops, verifrt.PolicyFIFO, nil, -1, true)
	check("FIFO", nil, outs)
	sets.Add("states", verifrt.FreeDigest())
	rep.Inc("histories", 1)
	// state-directed deepening: a state in which a pool holds the same object twice is a state from
	// which two later borrowers share an object. That is not an outcome yet (and nothing is reported
	// for it), but it is worth extending with calls that keep many pooled objects live at once.
	if !amplifying {
		runHistory(ops, verifrt.PolicyLIFO, nil, -1, true)
		if verifrt.HasDuplicates() {
			rep.Inc("states_with_duplicate_pool_entries", 1)
			key := ""
			for _, o := range ops {
				key += opKey(o) + "|"
			}
			if !amplified[key] && len(amplified) < 400 {
				amplified[key] = true
				amplifying = true
				for _, amp := range c04amplifiers {
					h := append(append([]Op(nil), ops...), amp)
					exploreHistory(h, len(h)-1, 1, rep, sets, "deepened")
				}
				amplifying = false
			}
		}
	}
}

var amplifying bool
var amplified = map[string]bool{}

// c04amplifiers keep many pooled results and validators live at once and report errors at every
// level, so that two borrowers sharing one object show up as lost or foreign messages.
var c04amplifiers = []Op{
	{Kind: "against", Def: `{"type":"object","required":["r1"],"properties":{"k":{"enum":["x"]},"child":{"type":"object","required":["r2"],"properties":{"k":{"enum":["y"]},"child":{"type":"object","required":["r3"],"properties":{"k":{"enum":["z"]}},"patternProperties":{"^p":{"type":"integer"}}}},"patternProperties":{"^p":{"type":"integer"}}}},"patternProperties":{"^p":{"type":"integer"}}}`, Val: `{"k":1,"p1":"s","child":{"k":2,"p2":"s","child":{"k":3,"p3":"s"}}}`},
	{Kind: "against", Def: `{"type":"array","items":{"type":"object","required":["n"],"properties":{"m":{"type":"string","minLength":3},"l":{"type":"array","items":{"type":"integer","maximum":1}}}}}`, Val: `[{"m":"a","l":[1,2]},{"n":1,"m":"ab","l":[3]},{"l":["x"]}]`},
	{Kind: "against", Def: `{"allOf":[{"properties":{"a":{"type":"integer"}}},{"properties":{"b":{"type":"string"}},"required":["c"]},{"anyOf":[{"required":["d"]},{"properties":{"a":{"maximum":0}}}]}]}`, Val: `{"a":"x","b":1}`},
	{Kind: "param", Def: `{"name":"p","in":"query","type":"array","items":{"type":"array","items":{"type":"string","minLength":2,"pattern":"^a"}}}`, Val: `[][]string:aa|ab;b`},
}

// shrinkHistory drops earlier operations while the observed one still differs from its solo outcome
// under the LIFO or FIFO default policy.
func shrinkHistory(ops []Op, observed int) []Op {
	cur := append([]Op(nil), ops[:observed+1]...)
	differs := func(h []Op) bool {
		w := soloOutcome(h[len(h)-1])
		for _, pol := range []int{verifrt.PolicyLIFO, verifrt.PolicyFIFO} {
			outs, _ := runHistory(h, pol, nil, -1, true)
			if outs[len(h)-1].Key() != w.Key() {
				return true
			}
		}
		return false
	}
	if !differs(cur) {
		return cur // only shows under a deviation: keep the history as found
	}
	for changed := true; changed; {
		changed = false
		for i := 0; i < len(cur)-1; i++ {
			cand := append(append([]Op(nil), cur[:i]...), cur[i+1:]...)
			if differs(cand) {
				cur, changed = cand, true
				break
			}
		}
	}
	return cur
}

// ---- alphabets -------------------------------------------------------------------------------

func c04atoms() []string {
	out := append([]string(nil), gen.BaseAtoms[1:]...)
	for _, t := range []string{`{"items":%s}`, `{"properties":{"a":%s}}`, `{"patternProperties":{"^a":%s}}`, `{"additionalProperties":%s}`,
		`{"not":%s}`, `{"allOf":[%s]}`, `{"anyOf":[%s]}`, `{"oneOf":[%s]}`, `{"dependencies":{"a":%s}}`, `{"items":[{},{}],"additionalItems":%s}`} {
		for _, l := range gen.SmallLeaves {
			out = append(out, fmt.Sprintf(t, l))
		}
	}
	out = append(out, `{"anyOf":[{"type":"integer"},{"type":"string","minLength":2}]}`, `{"oneOf":[{"type":"integer"},{"maximum":2}]}`,
		`{"allOf":[{"type":"string","format":"date"},{"type":"string","format":"email"}]}`)
	seen := map[string]bool{}
	var ded []string
	for _, a := range out {
		if !seen[a] {
			seen[a] = true
			ded = append(ded, a)
		}
	}
	return ded
}

// c04compositions: allOf/anyOf/oneOf with two and three alternatives in every order of failing and
// matching branches (which result is kept, merged or ditched depends on that order). They are used as
// dirtying calls in front of a small set of observers (layer 1b).
func c04compositions() []string {
	var out []string
	for _, a := range gen.Atoms() {
		if strings.HasPrefix(a, `{"allOf":[`) || strings.HasPrefix(a, `{"anyOf":[`) || strings.HasPrefix(a, `{"oneOf":[`) {
			if strings.Count(a, "},{") >= 1 && !strings.Contains(a, "$ref") {
				out = append(out, a)
			}
		}
	}
	return out
}

var c04observers = []Op{
	{Kind: "against", Def: `{"type":"object","required":["b"],"properties":{"a":{"type":"integer","maximum":2}}}`, Val: `{"a":3}`},
	{Kind: "against", Def: `{"anyOf":[{"type":"integer"},{"type":"string","minLength":2}]}`, Val: `"a"`},
	{Kind: "against", Def: `{"type":"array","items":{"type":"string","minLength":2}}`, Val: `["aa","b",3]`},
	{Kind: "param", Def: `{"name":"p","in":"query","type":"array","items":{"type":"string","minLength":2}}`, Val: `[]string:aa|b`},
}

var c04dirtyInstances = []string{`1`, `3`, `"aa"`, `"a"`, `[1,2,3]`, `{"a":1,"b":2}`, `{"a":"x"}`, `null`}

func keywordsOf(schema string) []string {
	var m map[string]json.RawMessage
	json.Unmarshal([]byte(schema), &m)
	ks := make([]string, 0, len(m))
	for k := range m {
		ks = append(ks, k)
	}
	sort.Strings(ks)
	return ks
}

func shareKeyword(a, b string) bool {
	ka, kb := keywordsOf(a), keywordsOf(b)
	for _, x := range ka {
		for _, y := range kb {
			if x == y {
				return true
			}
		}
	}
	return false
}

var c04params = []string{
	`{"name":"p","in":"query","type":"integer","format":"int32","maximum":2}`,
	`{"name":"p","in":"query","type":"integer","format":"int32","maximum":3,"exclusiveMaximum":true}`,
	`{"name":"p","in":"query","type":"integer","minimum":2,"exclusiveMinimum":true}`,
	`{"name":"p","in":"query","type":"integer","minimum":2}`,
	`{"name":"q","in":"query","type":"number","multipleOf":0.5}`,
	`{"name":"p","in":"query","type":"string","pattern":"^a+$"}`,
	`{"name":"p","in":"query","type":"string","minLength":2,"enum":["aa","bb"]}`,
	`{"name":"p","in":"query","type":"string","format":"date"}`,
	`{"name":"p","in":"query","type":"array","items":{"type":"string","minLength":2}}`,
	`{"name":"p","in":"query","type":"array","maxItems":1,"items":{"type":"integer","maximum":2}}`,
	`{"name":"p","in":"query","type":"array","uniqueItems":true,"items":{"type":"array","items":{"type":"string","pattern":"^a"}}}`,
	`{"name":"r","in":"formData","type":"string","required":true}`,
	`{"name":"u","in":"query","type":"array","uniqueItems":true,"items":{"type":"string","minLength":1}}`,
}

var c04paramValues = []string{`nil`, `int32:1`, `int32:3`, `int64:2`, `float64:2.5`, `float64:2`, `string:aa`, `string:b`, `string:`, `string:2020-01-01`,
	`[]string:aa|bb`, `[]string:a`, `[]int:1|3`, `[]int:1|1`, `[][]string:aa|b;aa`, `bool:true`,
	// untyped lists mixing scalars with equal composite members (uniqueItems looks at both), and the scalars alone
	`json:["aa",["x"],["x"]]`, `json:["aa","bb"]`, `json:[1,{"k":1},{"k":1}]`, `json:[1,2]`}

var c04headers = []string{
	`{"type":"integer","format":"int32","maximum":2}`,
	`{"type":"string","pattern":"^a+$"}`,
	`{"type":"string","maxLength":1}`,
	`{"type":"array","items":{"type":"string","enum":["aa"]}}`,
	`{"type":"number","minimum":2.5}`,
	`{"type":"boolean"}`,
	`{"type":"array","uniqueItems":true,"items":{"type":"integer"}}`,
}

const c04specValid = `{"swagger":"2.0","info":{"title":"t","version":"1"},"paths":{"/a/{id}":{"get":{"operationId":"g","parameters":[{"name":"id","in":"path","required":true,"type":"string"}],"responses":{"200":{"description":"ok","schema":{"$ref":"#/definitions/A"}}}}}},"definitions":{"A":{"type":"object","required":["n"],"properties":{"n":{"type":"integer","default":1}}}}}`
const c04specInvalid = `{"swagger":"2.0","info":{"title":"t","version":"1"},"paths":{"/a/{id}":{"get":{"operationId":"g","responses":{"200":{"description":"ok","schema":{"$ref":"#/definitions/A"}}}}}},"definitions":{"A":{"type":"object","required":["zz"],"properties":{"n":{"type":"integer","default":"x"}}}}}`

// c04sigma is the mixed-entry-point alphabet of layer 2 (see DESIGN.md §5 C04, field-coverage table).
func c04sigma(withSpec bool) []Op {
	ops := []Op{
		{Kind: "against", Def: `{"type":"object","required":["b"],"properties":{"a":{"type":"integer","maximum":2}}}`, Val: `{"a":3}`},
		{Kind: "against", Def: `{"type":"object","properties":{"a":{"type":"integer","maximum":5}}}`, Val: `{"a":3}`},
		{Kind: "against", Def: `{"type":"string","minLength":2}`, Val: `null`},
		{Kind: "against", Def: `{"type":"integer","minimum":2}`, Val: `num:1.5`},
		{Kind: "against", Def: `{"type":"number","maximum":2,"exclusiveMaximum":true}`, Val: `num:2`},
		{Kind: "against", Def: `{"anyOf":[{"type":"integer"},{"type":"string","minLength":2},{"type":"array"}]}`, Val: `"aa"`},
		{Kind: "against", Def: `{"oneOf":[{"type":"string"},{"type":"integer"},{"maximum":2}]}`, Val: `1`},
		{Kind: "against", Def: `{"allOf":[{"type":"string","format":"date"},{"type":"string","format":"email"}]}`, Val: `"x"`},
		{Kind: "against", Def: `{"type":"integer","format":"int32","maximum":2}`, Val: `3000000000`},
		{Kind: "against", Def: `{"type":"object","properties":{"a":{"type":"array","items":{"type":"object","properties":{"n":{"type":"integer","default":1}},"required":["n"]}}},"patternProperties":{"^x":{"type":"string"}},"additionalProperties":false}`, Val: `{"a":[{},{"n":"s"}],"xa":1,"zz":2}`},
		{Kind: "recyc", Def: `{"type":"array","items":[{"type":"integer"},{"type":"string"}],"additionalItems":false,"uniqueItems":true}`, Val: `[1,"a",3]`, Root: "data"},
		{Kind: "recyc", Def: `{"not":{"type":"string"},"dependencies":{"a":["b"]}}`, Val: `{"a":1}`, Root: "a.b"},
		{Kind: "param", Def: c04params[0], Val: `int32:3`},
		{Kind: "param", Def: c04params[8], Val: `[]string:aa|b`},
		{Kind: "param", Def: c04params[5], Val: `nil`},
		{Kind: "header", Def: c04headers[3], Val: `[]string:aa|bb`},
		{Kind: "header", Def: c04headers[0], Val: `int32:1`},
		// degenerate arguments: no schema, and a schema-less validator object
		{Kind: "against", Def: nilSchema, Val: `1`},
		{Kind: "recyc", Def: nilSchema, Val: `{"a":1}`, Root: "data"},
	}
	if withSpec {
		ops = append(ops, Op{Kind: "spec", Def: c04specValid, Val: ""}, Op{Kind: "spec", Def: c04specInvalid, Val: "continue"})
	}
	return ops
}

// ---- check -----------------------------------------------------------------------------------

func c04(c *hx.Ctx) int {
	if len(c.Args) == 2 && c.Args[0] == "--history" {
		// debugging aid: explore one history given as a JSON list of ops
		var ops []Op
		if err := json.Unmarshal([]byte(c.Args[1]), &ops); err != nil {
			fmt.Println(err)
			return 2
		}
		rep := hx.NewReport()
		sets := hx.NewSetAdder()
		exploreHistory(ops, len(ops)-1, 1, rep, sets, "debug")
		for i, o := range ops {
			fmt.Println(i, o, "solo:", soloOutcome(o).Key())
		}
		fmt.Println("executions", rep.Counters["executions"], "violations", len(rep.Violations), "double puts", verifrt.PoolStats.DoublePuts)
		for _, v := range rep.Violations {
			fmt.Println(v.What)
		}
		return 0
	}
	if c.Worker >= 0 {
		return c04worker(c)
	}
	if c.Quick() {
		c.Budget = 200 * second
	} else {
		c.Budget = 1500 * second
	}
	rep := c.RunWorkers(16, 16)
	states := rep.SetSize("states")
	cov := map[string]any{
		"states":                        states,
		"transitions":                   rep.Counters["executions"],
		"traces_validated_against_impl": rep.Counters["executions"],
		"histories":                     rep.Counters["histories"],
		"distinct_outcomes":             rep.SetSize("outcomes"),
		"pool_objects_reused":           rep.Counters["reused"],
		"rule": "state = canonical digest of the free multisets of the 15 pools; transition = one library call executed on the real code with one explicit pool hand-out vector; layer 1: all (dirtying call, observed call) pairs of one-keyword schemas / parameter / header definitions with every single deviation from the LIFO hand-out inside the observed call, plus FIFO; layer 2: all sequences over the mixed entry-point alphabet up to the depth bound",
	}
	if states < 2 || rep.Counters["reused"] == 0 || rep.SetSize("outcomes") < 2 {
		if rep.HarnessErr == "" && len(rep.Violations) == 0 {
			rep.HarnessErr = fmt.Sprintf("vacuous exploration: states=%d reused=%d outcomes=%d", states, rep.Counters["reused"], rep.SetSize("outcomes"))
		}
	}
	return hx.Finish(c, "model_checking", rep, cov, []string{
		"the pool shim implements the documented contract of sync.Pool (Get returns any previously Put item or New())",
		"free objects with equal shallow content digests are interchangeable (one representative per class is tried)",
		"histories are panic-free (C11 owns panics)",
	})
}

func c04worker(c *hx.Ctx) int {
	rep := hx.NewReport()
	sets := hx.NewSetAdder()
	ord := 0
	mine := func() bool {
		ord++
		return (ord-1)%c.Workers == c.Worker
	}
	verifrt.ResetStats()
	// ---- layer 1: schemas
	atoms := c04atoms()
	for _, a := range atoms {
		for _, b := range atoms {
			if c.Quick() && !shareKeyword(a, b) {
				continue
			}
			if !mine() {
				continue
			}
			if c.Expired() {
				rep.Exhaustive = false
				break
			}
			for _, di := range c04dirtyInstances {
				op1 := Op{Kind: "against", Def: gen.WithDefs(a), Val: di}
				for _, it := range gen.Instances {
					op2 := Op{Kind: "against", Def: gen.WithDefs(b), Val: it}
					exploreHistory([]Op{op1, op2}, 1, 1, rep, sets, "pair")
				}
			}
		}
	}
	// ---- layer 1c: what an absent member with a default leaves behind, in front of required checks
	for _, d := range []string{`{"properties":{"a":{"default":1}}}`, `{"properties":{"a":{"type":"integer","default":1},"b":{"default":"x"}}}`, `{"properties":{"a":{"default":1}},"required":["a"]}`,
		`{"properties":{"required":{"default":false},"a":{"default":[]}},"additionalProperties":false}`} {
		for _, di := range []string{`{}`, `{"b":2}`, `{"a":3}`, `{"c":1}`} {
			if !mine() {
				continue
			}
			op1 := Op{Kind: "against", Def: d, Val: di}
			for _, r := range []string{`{"required":["a"]}`, `{"required":["a","b"]}`, `{"required":["required"],"properties":{"required":{"enum":[true]}}}`, `{"properties":{"a":{"type":"integer"}},"required":["a"]}`} {
				for _, it := range []string{`{}`, `{"b":1}`, `{"a":1}`} {
					exploreHistory([]Op{op1, {Kind: "against", Def: r, Val: it}}, 1, 1, rep, sets, "pair")
				}
			}
		}
	}
	// ---- layer 1d: the caller-supplied things a recycled validator keeps a pointer to — the format
	// registry and the option set — differ between the dirtying and the observed call
	{
		fmts := []string{`{"type":"string","format":"date"}`, `{"type":"string","format":"x-even"}`, `{"properties":{"a":{"type":"string","format":"x-even"}}}`, `{"items":{"type":"string","format":"date"}}`}
		shapes := []string{`{"type":"array"}`, `{"type":"object","properties":{"a":{"type":"array"}}}`, `{"items":{}}`, `{"properties":{"default":{"items":{}}}}`}
		vals := []string{`"abc"`, `"2020-01-01"`, `"ab"`, `{"a":"abc"}`, `["x","2020-01-01"]`, `{"type":"array"}`, `{"items":1}`, `{"default":{"items":1}}`}
		var variants []Op
		for _, f := range append(fmts, shapes...) {
			for _, v := range vals {
				for _, reg := range []string{"", "custom"} {
					for _, opt := range []string{"", "swagger"} {
						variants = append(variants, Op{Kind: "against", Def: f, Val: v, Reg: reg, Opts: opt})
					}
				}
			}
		}
		for _, o1 := range variants {
			if !mine() {
				continue
			}
			if c.Expired() {
				rep.Exhaustive = false
				break
			}
			for _, o2 := range variants {
				if o1.Def != o2.Def && c.Quick() {
					continue // quick: same schema, every combination of value, registry and options
				}
				if o1.Reg == o2.Reg && o1.Opts == o2.Opts {
					continue
				}
				exploreHistory([]Op{o1, o2}, 1, 1, rep, sets, "pair")
			}
		}
	}
	// ---- layer 1b: compositions as dirtying calls in front of the observers
	for _, a := range c04compositions() {
		if !mine() {
			continue
		}
		if c.Expired() {
			rep.Exhaustive = false
			break
		}
		for _, di := range c04dirtyInstances {
			op1 := Op{Kind: "against", Def: a, Val: di}
			for _, obs := range c04observers {
				exploreHistory([]Op{op1, obs}, 1, 1, rep, sets, "pair")
			}
		}
	}
	// ---- layer 1: parameters and headers (all ordered pairs)
	var pops []Op
	for _, p := range c04params {
		for _, v := range c04paramValues {
			pops = append(pops, Op{Kind: "param", Def: p, Val: v})
		}
	}
	for _, h := range c04headers {
		for _, v := range c04paramValues {
			pops = append(pops, Op{Kind: "header", Def: h, Val: v})
		}
	}
	for _, o1 := range pops {
		if !mine() {
			continue
		}
		for _, o2 := range pops {
			if c.Quick() && o1.Kind != o2.Kind {
				continue
			}
			exploreHistory([]Op{o1, o2}, 1, 1, rep, sets, "pair")
		}
	}
	// ---- layer 2: sequences over the mixed alphabet
	sigma := c04sigma(true)
	depth := 2
	bound := 1
	if !c.Quick() {
		depth = 3
	}
	var rec func(prefix []Op)
	rec = func(prefix []Op) {
		if len(prefix) == depth {
			return
		}
		for _, o := range sigma {
			h := append(append([]Op(nil), prefix...), o)
			if len(h) >= 2 || depth == 1 {
				if mine() && !c.Expired() {
					b := bound
					for _, x := range h {
						if x.Kind == "spec" {
							b = 0 // ~2200 Gets per whole-spec validation: default policies only
						}
					}
					exploreHistory(h, len(h)-1, b, rep, sets, "seq")
				}
			}
			rec(h)
		}
	}
	rec(nil)
	if c.Expired() {
		rep.Exhaustive = false
	}
	rep.Inc("reused", int64(verifrt.PoolStats.Reused))
	rep.Inc("double_puts_seen", int64(verifrt.PoolStats.DoublePuts))
	if c.Worker == 0 {
		rep.Samples = append(rep.Samples, []Op{{Kind: "against", Def: atoms[14], Val: c04dirtyInstances[1]}, {Kind: "against", Def: atoms[16], Val: gen.Instances[6]}}, sigma[:2])
	}
	sets.Flush(rep)
	hx.EmitWorkerReport(rep)
	return 0
}
