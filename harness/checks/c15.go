package checks

import (
	"fmt"
	"regexp"
	"sort"
	"strings"

	"github.com/go-openapi/strfmt"
	"github.com/go-openapi/validate"
	"github.com/go-openapi/validate/verifrt"

	"verif/harness/hx"
)

// C15 — pattern matching always uses the expression asked for, whatever is cached or being compiled
// concurrently. Threads call Pattern / a patternProperties validation; all interleavings at the
// cache's synchronisation operations (atomic load/store, mutex lock/unlock) with a bounded number of
// preemptions are explored with the race detector on.

func init() { Registry["C15"] = c15 }

type c15call struct {
	kind    string // pattern | schema
	data    string
	pattern string
}

func (c c15call) name() string {
	if c.kind == "schema" {
		return fmt.Sprintf("AgainstSchema(patternProperties %q, key %q)", c.pattern, c.data)
	}
	return fmt.Sprintf("Pattern(%q, %q)", c.data, c.pattern)
}

// expected observation from Go's regexp package compiled from that very pattern
func (c c15call) want() string {
	re, err := regexp.Compile(c.pattern)
	if err != nil {
		return "invalid-pattern"
	}
	if re.MatchString(c.data) {
		return "match"
	}
	return "no-match"
}

func (c c15call) do() string {
	if c.kind == "pattern" {
		e := validate.Pattern("p", "query", c.data, c.pattern)
		switch {
		case e == nil:
			return "match"
		case strings.Contains(e.Error(), "pattern is invalid"):
			return "invalid-pattern"
		default:
			return "no-match"
		}
	}
	// schema: {"patternProperties":{p:{"type":"integer"}},"additionalProperties":false} on {key:1}:
	// valid iff the key matches; an invalid pattern never matches
	sch, _ := parseSpecSchema(fmt.Sprintf(`{"patternProperties":{%q:{"type":"integer"}},"additionalProperties":false}`, c.pattern))
	e := validate.AgainstSchema(sch, map[string]any{c.data: 1.0}, strfmt.Default)
	if e == nil {
		return "match"
	}
	return "no-match"
}

func (c c15call) wantObs() string {
	w := c.want()
	if c.kind == "schema" && w == "invalid-pattern" {
		return "no-match"
	}
	return w
}

func c15alphabet(quick bool) []c15call {
	a := []c15call{
		{"pattern", "aa", "^a+$"}, {"pattern", "bb", "^a+$"}, {"pattern", "aa", "^b+$"}, {"pattern", "aa", "("},
		{"schema", "aa", "^a+$"},
	}
	if !quick {
		a = append(a, c15call{"pattern", "bb", "^b+$"}, c15call{"schema", "aa", "^b+$"}, c15call{"pattern", "bb", "("})
	}
	return a
}

func c15(c *hx.Ctx) int {
	if c.Worker >= 0 {
		return c15worker(c)
	}
	if c.Quick() {
		c.Budget = 150 * second
	} else {
		c.Budget = 1500 * second
	}
	if !verifrt.RaceEnabled {
		fmt.Println("HARNESS-ERROR C15 must be built with -race")
		return 2
	}
	rep := c.RunWorkers(16, 16)
	cov := map[string]any{
		"states":                        rep.SetSize("finalcaches") + rep.SetSize("observations"),
		"transitions":                   rep.Counters["sched_points"],
		"traces_validated_against_impl": rep.Counters["schedules"],
		"scenarios":                     rep.Counters["scenarios"],
		"context_switches":              rep.Counters["switches"],
		"distinct_final_caches":         rep.SetSize("finalcaches"),
		"distinct_observation_vectors":  rep.SetSize("observations"),
		"preemption_bound":              rep.Counters["bound"] / max64(rep.Counters["workers"], 1),
		"race_detector":                 "on in every explored schedule (scheduler hand-offs carry no happens-before)",
		"rule":                          "every schedule with <= 3 preemptions (quick) / ALL interleavings (thorough) of 2 threads, plus 3 threads with <= 2 preemptions (thorough), each making 1-2 calls from the pattern alphabet, from an empty and from a pre-warmed cache; oracle: every answer equals Go regexp compiled from that pattern, every cache entry k holds an expression whose source is k, no race, no deadlock",
	}
	if rep.Counters["switches"] == 0 && rep.HarnessErr == "" {
		rep.HarnessErr = "vacuous: no context switch happened"
	}
	return hx.Finish(c, "model_checking", rep, cov, []string{
		"sequentially consistent memory; scheduling points at every mutex / atomic.Value operation of the cache",
		"<= 3 threads, <= 2 calls each",
	})
}

func max64(a, b int64) int64 {
	if a > b {
		return a
	}
	return b
}

func c15worker(c *hx.Ctx) int {
	rep := hx.NewReport()
	sets := hx.NewSetAdder()
	alpha := c15alphabet(c.Quick())
	// sequences of 1..2 calls
	var seqs [][]c15call
	for _, a := range alpha {
		seqs = append(seqs, []c15call{a})
	}
	for _, a := range alpha {
		for _, b := range alpha {
			seqs = append(seqs, []c15call{a, b})
		}
	}
	bound := 3
	if !c.Quick() {
		bound = 1000 // every interleaving of the two-thread scenarios
	}
	rep.Inc("bound", int64(bound))
	rep.Inc("workers", 1)
	ord := 0
	runScn := func(threads [][]c15call, warm []string, b int) {
		ord++
		if (ord-1)%c.Workers != c.Worker {
			return
		}
		if c.Expired() {
			rep.Exhaustive = false
			return
		}
		scn := Scenario{Name: fmt.Sprintf("cache pre-warmed with %v", warm), Cfg: verifrt.SchedConfig{Mutex: true, Atomic: true}}
		scn.Setup = func() {
			resetPools()
			// state flush: one fixed call through every cache path, so that any "most recently
			// used" style of hidden state is a function of this prelude only and not of the
			// previous execution; then the cache itself is set to the scenario's start state
			validate.Pattern("flush", "query", "x", "^verif-flush$")
			validate.VerifSetRegexpCache(warm...)
		}
		want := make([][]string, len(threads))
		for t, th := range threads {
			var calls []Call
			for _, cc := range th {
				cc := cc
				calls = append(calls, Call{Name: cc.name(), Do: cc.do})
				want[t] = append(want[t], cc.wantObs())
			}
			scn.Threads = append(scn.Threads, calls)
		}
		scn.Expect = func(obs [][]string) string {
			for t := range obs {
				for i := range obs[t] {
					if obs[t][i] != want[t][i] {
						return fmt.Sprintf("thread %d call %s answered %s, Go regexp says %s", t, threads[t][i].name(), obs[t][i], want[t][i])
					}
				}
			}
			return ""
		}
		scn.After = func() string {
			cache := validate.VerifRegexpCache()
			var ks []string
			for k, v := range cache {
				if k != v {
					return fmt.Sprintf("cache entry %q holds the expression %q", k, v)
				}
				if _, err := regexp.Compile(k); err != nil {
					return fmt.Sprintf("cache holds an invalid pattern %q", k)
				}
				ks = append(ks, k)
			}
			sort.Strings(ks)
			sets.Add("finalcaches", strings.Join(ks, ","))
			return ""
		}
		st := exploreScenario(scn, b, 200000, rep, sets)
		rep.Inc("scenarios", 1)
		rep.Inc("schedules", st.Execs)
		rep.Inc("sched_points", st.Points)
		rep.Inc("switches", st.Switches)
		if len(rep.Samples) < 2 {
			rep.Samples = append(rep.Samples, map[string]any{"scenario": scn.describe(), "schedules": st.Execs, "preemption_bound": b})
		}
	}
	for _, warm := range [][]string{nil, {"^a+$"}} {
		for i := range seqs {
			for j := i; j < len(seqs); j++ { // unordered pairs: thread ids are symmetric
				runScn([][]c15call{seqs[i], seqs[j]}, warm, bound)
			}
		}
	}
	if !c.Quick() {
		// three threads, one call each plus one thread with two, preemption bound 2
		for i := range alpha {
			for j := i; j < len(alpha); j++ {
				for _, s := range seqs {
					runScn([][]c15call{{alpha[i]}, {alpha[j]}, s}, nil, 2)
				}
			}
		}
	}
	sets.Flush(rep)
	hx.EmitWorkerReport(rep)
	return 0
}
