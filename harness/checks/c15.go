package checks

import (
	"fmt"
	"regexp"
	"sort"
	"strings"

	"github.com/go-openapi/strfmt"
	"github.com/go-openapi/validate"
	"github.com/go-openapi/validate/verifrt"

	"verif/harness/hx"
)

// C15 — pattern matching always uses the expression asked for, whatever is cached or being compiled
// concurrently. Threads call Pattern / a patternProperties validation; all interleavings at the
// cache's synchronisation operations (atomic load/store, mutex lock/unlock) with a bounded number of
// preemptions are explored with the race detector on.

func init() { Registry["C15"] = c15 }

type c15call struct {
	kind    string // pattern | schema
	data    string
	pattern string
}

func (c c15call) name() string {
	if c.kind == "schema" {
		return fmt.Sprintf("AgainstSchema(patternProperties %q, key %q)", c.pattern, c.data)
	}
	return fmt.Sprintf("Pattern(%q, %q)", c.data, c.pattern)
}

// expected observation from Go's regexp package compiled from that very pattern
func (c c15call) want() string {
	re, err := regexp.Compile(c.pattern)
	if err != nil {
		return "invalid-pattern"
	}
	if re.MatchString(c.data) {
		return "match"
	}
	return "no-match"
}

func (c c15call) do() string {
	if c.kind == "pattern" {
		e := validate.Pattern("p", "query", c.data, c.pattern)
		switch {
		case e == nil:
			return "match"
		case strings.Contains(e.Error(), "pattern is invalid"):
			return "invalid-pattern"
		default:
			return "no-match"
		}
	}
	// schema: {"patternProperties":{p:{"type":"integer"}},"additionalProperties":false} on {key:1}:
	// valid iff the key matches; an invalid pattern never matches
	sch, _ := parseSpecSchema(fmt.Sprintf(`{"patternProperties":{%q:{"type":"integer"}},"additionalProperties":false}`, c.pattern))
	e := validate.AgainstSchema(sch, map[string]any{c.data: 1.0}, strfmt.Default)
	if e == nil {
		return "match"
	}
	return "no-match"
}

func (c c15call) wantObs() string {
	w := c.want()
	if c.kind == "schema" && w == "invalid-pattern" {
		return "no-match"
	}
	return w
}

func c15alphabet(quick bool) []c15call {
	a := []c15call{
		{"pattern", "aa", "^a+$"}, {"pattern", "bb", "^a+$"}, {"pattern", "aa", "^b+$"}, {"pattern", "aa", "("},
		{"schema", "aa", "^a+$"},
		// a third expression: one thread can insert two new ones while the other still reads a snapshot
		{"pattern", "cc", "^c+$"},
	}
	if !quick {
		a = append(a, c15call{"pattern", "bb", "^b+$"}, c15call{"schema", "aa", "^b+$"}, c15call{"pattern", "bb", "("})
	}
	return a
}

func c15(c *hx.Ctx) int {
	if c.Worker >= 0 {
		return c15worker(c)
	}
	if c.Quick() {
		c.Budget = 150 * second
	} else {
		c.Budget = 600 * second
	}
	if !verifrt.RaceEnabled {
		fmt.Println("HARNESS-ERROR C15 must be built with -race")
		return 2
	}
	rep := c.RunWorkers(16, 16)
	cov := map[string]any{
		"states":                        rep.SetSize("finalcaches") + rep.SetSize("observations"),
		"transitions":                   rep.Counters["sched_points"],
		"traces_validated_against_impl": rep.Counters["schedules"],
		"scenarios":                     rep.Counters["scenarios"],
		"context_switches":              rep.Counters["switches"],
		"distinct_final_caches":         rep.SetSize("finalcaches"),
		"distinct_observation_vectors":  rep.SetSize("observations"),
		"preemption_bound":              rep.Counters["bound"] / max64(rep.Counters["workers"], 1),
		"race_detector":                 "on in every explored schedule (scheduler hand-offs carry no happens-before)",
		"rule":                          "every schedule with <= 3 preemptions (quick) / ALL interleavings (thorough) of 2 threads, plus 3 threads with <= 2 preemptions (thorough), each making 1-2 calls from the pattern alphabet, from an empty and from a pre-warmed cache; oracle: every answer equals Go regexp compiled from that pattern, every cache entry k holds an expression whose source is k, no race, no deadlock",
	}
	if rep.Counters["switches"] == 0 && rep.HarnessErr == "" {
		rep.HarnessErr = "vacuous: no context switch happened"
	}
	return hx.Finish(c, "model_checking", rep, cov, []string{
		"sequentially consistent memory; scheduling points at every mutex / atomic.Value operation of the cache",
		"<= 3 threads, <= 2 calls each",
	})
}

func max64(a, b int64) int64 {
	if a > b {
		return a
	}
	return b
}

func c15worker(c *hx.Ctx) int {
	rep := hx.NewReport()
	sets := hx.NewSetAdder()
	alpha := c15alphabet(c.Quick())
	// sequences of 1..2 calls
	var seqs [][]c15call
	for _, a := range alpha {
		seqs = append(seqs, []c15call{a})
	}
	for _, a := range alpha {
		for _, b := range alpha {
			seqs = append(seqs, []c15call{a, b})
		}
	}
	bound := 3
	if !c.Quick() {
		bound = 6 // (all interleavings of the two-thread scenarios have at most a handful more preemptions)
	}
	rep.Inc("bound", int64(bound))
	rep.Inc("workers", 1)
	ord := 0
	runScn := func(threads [][]c15call, warm []string, b int) {
		ord++
		if (ord-1)%c.Workers != c.Worker {
			return
		}
		if c.Expired() {
			rep.Exhaustive = false
			return
		}
		scn := Scenario{Name: fmt.Sprintf("cache pre-warmed with %v", warm), Cfg: verifrt.SchedConfig{Mutex: true, Atomic: true}}
		scn.Setup = func() {
			resetPools()
			// state flush: one fixed call through every cache path, so that any "most recently
			// used" style of hidden state is a function of this prelude only and not of the
			// previous execution; then the cache itself is set to the scenario's start state
			validate.Pattern("flush", "query", "x", "^verif-flush$")
			validate.VerifSetRegexpCache(warm...)
		}
		want := make([][]string, len(threads))
		for t, th := range threads {
			var calls []Call
			for _, cc := range th {
				cc := cc
				calls = append(calls, Call{Name: cc.name(), Do: cc.do})
				want[t] = append(want[t], cc.wantObs())
			}
			scn.Threads = append(scn.Threads, calls)
		}
		scn.Expect = func(obs [][]string) string {
			for t := range obs {
				for i := range obs[t] {
					if obs[t][i] != want[t][i] {
						return fmt.Sprintf("thread %d call %s answered %s, Go regexp says %s", t, threads[t][i].name(), obs[t][i], want[t][i])
					}
				}
			}
			return ""
		}
		scn.After = func() string {
			cache := validate.VerifRegexpCache()
			var ks []string
			for k, v := range cache {
				if k != v {
					return fmt.Sprintf("cache entry %q holds the expression %q", k, v)
				}
				if _, err := regexp.Compile(k); err != nil {
					return fmt.Sprintf("cache holds an invalid pattern %q", k)
				}
				ks = append(ks, k)
			}
			sort.Strings(ks)
			sets.Add("finalcaches", strings.Join(ks, ","))
			return ""
		}
		st := exploreScenario(scn, b, 200000, rep, sets)
		rep.Inc("scenarios", 1)
		rep.Inc("schedules", st.Execs)
		rep.Inc("sched_points", st.Points)
		rep.Inc("switches", st.Switches)
		if len(rep.Samples) < 2 {
			rep.Samples = append(rep.Samples, map[string]any{"scenario": scn.describe(), "schedules": st.Execs, "preemption_bound": b})
		}
	}
	for _, warm := range [][]string{nil, {"^a+$"}} {
		for i := range seqs {
			for j := i; j < len(seqs); j++ { // unordered pairs: thread ids are symmetric
				runScn([][]c15call{seqs[i], seqs[j]}, warm, bound)
			}
		}
	}
	if !c.Quick() {
		// three threads, one call each plus one thread with two, preemption bound 2
		for i := range alpha {
			for j := i; j < len(alpha); j++ {
				for _, s := range seqs {
					runScn([][]c15call{{alpha[i]}, {alpha[j]}, s}, nil, 2)
				}
			}
		}
	}
	if c.Worker == 0 {
		c15sequential(rep, sets)
	}
	sets.Flush(rep)
	hx.EmitWorkerReport(rep)
	return 0
}

// c15sequential: one thread, every pattern (valid, with inline flags, invalid fragments that would
// join into something valid) after every other pattern, through the Pattern helper and through objects
// with one or two pattern properties (with and without additionalProperties:false). Each answer must
// be the one Go's regexp gives for that very pattern, an invalid pattern never matching.
func c15sequential(rep *hx.Report, sets *hx.SetAdder) {
	// invalid expressions whose offending FRAGMENT (what the compiler quotes in its error) is itself a
	// valid expression, each followed in the list by that fragment: `^[q-b]+$` / `q-b`, `id-[7-3]` / `7-3`,
	// `[[:letter:]]` / `[:letter:]`, a trailing backslash / the empty expression
	pats := []string{"^a+$", "^b+$", "(?i)^x-", "^id$", "(b", "a)", `a\`, "", "b", "é", "^$", "[", "^(a|b)$", "^[q-b]+$", "q-b", "id-[7-3]", "7-3", "[[:letter:]]", "[:letter:]"}
	keys := []string{"aa", "bb", "ID", "Id", "x-A", "X-a", "a", "b", "a|b", "é", "", "ab", "q-b", "7-3", "e"}
	match := func(p, k string) (matches, valid bool) {
		re, err := regexp.Compile(p)
		if err != nil {
			return false, false
		}
		return re.MatchString(k), true
	}
	fail := func(sig, what string) {
		rep.AddViolation(hx.Violation{Signature: "sequential: " + sig, What: what, Replay: map[string]any{"case": what}})
	}
	for _, first := range append([]string{""}, pats...) {
		for _, p := range pats {
			for _, k := range keys {
				validate.VerifSetRegexpCache()
				if first != "" {
					validate.Pattern("w", "q", "x", first)
				}
				rep.Inc("sequential_cases", 1)
				got := c15call{"pattern", k, p}.do()
				m, ok := match(p, k)
				want := "no-match"
				if !ok {
					want = "invalid-pattern"
				} else if m {
					want = "match"
				}
				sets.Add("observations", got)
				if got != want {
					fail(fmt.Sprintf("Pattern(%q,%q) after %q", k, p, first), fmt.Sprintf("after using pattern %q, Pattern(%q, %q) answered %s, Go regexp says %s", first, k, p, got, want))
				}
			}
		}
	}
	// the `pattern` keyword of a string schema, one-shot (recycled validators): every pattern after
	// every other one. A recycled string validator must use the expression of ITS schema, and report
	// an invalid one, whatever the previous schema asked for.
	classify := func(e error) string {
		switch {
		case e == nil:
			return "match"
		case strings.Contains(e.Error(), "pattern is invalid"):
			return "invalid-pattern"
		}
		return "no-match"
	}
	for _, first := range append([]string{""}, pats...) {
		for _, p := range pats {
			for _, k := range keys {
				for variant := 0; variant < 2; variant++ {
					validate.VerifSetRegexpCache()
					resetPools()
					rep.Inc("sequential_cases", 1)
					var got string
					if variant == 0 {
						if first != "" {
							s1, _ := parseSpecSchema(fmt.Sprintf(`{"type":"string","pattern":%q}`, first))
							_ = validate.AgainstSchema(s1, "aa", strfmt.Default)
						}
						s2, _ := parseSpecSchema(fmt.Sprintf(`{"type":"string","pattern":%q}`, p))
						got = classify(validate.AgainstSchema(s2, k, strfmt.Default))
					} else {
						if first != "" {
							p1, _ := parseParam(fmt.Sprintf(`{"name":"w","in":"query","type":"string","pattern":%q}`, first))
							validate.NewParamValidator(p1, strfmt.Default, validate.WithRecycleValidators(true)).Validate("aa")
						}
						p2, _ := parseParam(fmt.Sprintf(`{"name":"q","in":"query","type":"string","pattern":%q}`, p))
						res := validate.NewParamValidator(p2, strfmt.Default, validate.WithRecycleValidators(true)).Validate(k)
						got = "match"
						if res != nil && len(res.Errors) > 0 {
							got = classify(res.Errors[0])
						}
					}
					m, ok := match(p, k)
					want := "no-match"
					if !ok {
						want = "invalid-pattern"
					} else if m {
						want = "match"
					}
					sets.Add("observations", got)
					if got != want {
						fail(fmt.Sprintf("pattern keyword %q on %q after %q, variant %d", p, k, first, variant), fmt.Sprintf("after a one-shot validation with pattern %q, %s with pattern %q on %q answered %s, Go regexp says %s", first, []string{"AgainstSchema", "a recycling parameter validator"}[variant], p, k, got, want))
					}
				}
			}
		}
	}
	for i, p1 := range pats {
		for j, p2 := range pats {
			if j <= i {
				continue
			}
			for _, k := range keys {
				for variant := 0; variant < 2; variant++ {
					validate.VerifSetRegexpCache()
					rep.Inc("sequential_cases", 1)
					m1, _ := match(p1, k)
					m2, _ := match(p2, k)
					var schema string
					var want bool
					if variant == 0 {
						schema = fmt.Sprintf(`{"patternProperties":{%q:{},%q:{}},"additionalProperties":false}`, p1, p2)
						want = m1 || m2
					} else {
						schema = fmt.Sprintf(`{"patternProperties":{%q:{"type":"integer"},%q:{"type":"string"}}}`, p1, p2)
						want = !m2
					}
					sch, err := parseSpecSchema(schema)
					if err != nil {
						continue
					}
					o := againstSpec(sch, map[string]any{k: 1.0}, strfmt.Default)
					if o.Panic != "" {
						fail(fmt.Sprintf("panic with patterns %q, %q", p1, p2), fmt.Sprintf("schema %s on {%q:1} panics: %s", schema, k, o.Panic))
						continue
					}
					if o.Valid != want {
						fail(fmt.Sprintf("patternProperties %q + %q, key %q, variant %d", p1, p2, k, variant), fmt.Sprintf("schema %s on {%q:1}: valid=%v, but matching each pattern with Go regexp (invalid ones never match) gives valid=%v", schema, k, o.Valid, want))
					}
				}
			}
		}
	}
}
