package checks

import (
	"fmt"
	"hash/fnv"
	"math"
	"reflect"
	"sort"
	"strconv"
	"strings"

	"github.com/go-openapi/spec"
	"github.com/go-openapi/strfmt"
	"github.com/go-openapi/validate"

	"verif/harness/hx"
	"verif/harness/ref/simple"
)

// C16 — parameter, header and items validators follow Swagger simple-schema semantics.
//
// Bounded-exhaustive: every definition of the grammar below (as a query parameter and as a response
// header) x every Go value of the value alphabet, each judged by the library and by ref/simple.
// The input domain is the one fixed in DESIGN.md "### C16" (see c16inDomain).

func init() { Registry["C16"] = c16 }

// ---------------------------------------------------------------------------------------------
// definitions

func c16f(x float64) *float64 { return &x }
func c16i(x int64) *int64     { return &x }

// c16atom is one constraint that can be attached to one level of a definition.
type c16atom struct {
	name  string
	field string // two atoms on the same field exclude each other at one level
	ok    func(typ string) bool
	set   func(d *simple.Def)
}

func c16any(string) bool          { return true }
func c16scalar(t string) bool     { return t != "array" }
func c16numberOnly(t string) bool { return t == "number" }

// Bounds are small so that they fit every integer width; fractional bounds only where the declared
// type is number (an integer definition with a fractional bound is ill-typed, cf. DESIGN §8 #15).
var c16atoms = []c16atom{
	{"enum", "enum", c16scalar, nil}, // members depend on the type, see c16enumFor
	{"maximum:2", "max", c16any, func(d *simple.Def) { d.Maximum = c16f(2) }},
	{"maximum:2,exclusive", "max", c16any, func(d *simple.Def) { d.Maximum = c16f(2); d.ExclusiveMaximum = true }},
	{"maximum:1.5", "max", c16numberOnly, func(d *simple.Def) { d.Maximum = c16f(1.5) }},
	{"minimum:1", "min", c16any, func(d *simple.Def) { d.Minimum = c16f(1) }},
	{"minimum:1,exclusive", "min", c16any, func(d *simple.Def) { d.Minimum = c16f(1); d.ExclusiveMinimum = true }},
	{"minimum:-1", "min", c16any, func(d *simple.Def) { d.Minimum = c16f(-1) }},
	// a bound of zero is where "unsigned values cannot lie below it" shortcuts go wrong
	{"minimum:0,exclusive", "min", c16any, func(d *simple.Def) { d.Minimum = c16f(0); d.ExclusiveMinimum = true }},
	{"maximum:0", "max", c16any, func(d *simple.Def) { d.Maximum = c16f(0) }},
	{"maximum:0,exclusive", "max", c16any, func(d *simple.Def) { d.Maximum = c16f(0); d.ExclusiveMaximum = true }},
	{"minimum:0.5,exclusive", "min", c16numberOnly, func(d *simple.Def) { d.Minimum = c16f(0.5); d.ExclusiveMinimum = true }},
	{"multipleOf:2", "mul", c16any, func(d *simple.Def) { d.MultipleOf = c16f(2) }},
	{"multipleOf:0.5", "mul", c16numberOnly, func(d *simple.Def) { d.MultipleOf = c16f(0.5) }},
	{"maxLength:2", "maxLength", c16any, func(d *simple.Def) { d.MaxLength = c16i(2) }},
	{"minLength:2", "minLength", c16any, func(d *simple.Def) { d.MinLength = c16i(2) }},
	{"pattern", "pattern", c16any, func(d *simple.Def) { d.Pattern = "^a+$" }},
	{"maxItems:2", "maxItems", c16any, func(d *simple.Def) { d.MaxItems = c16i(2) }},
	{"minItems:2", "minItems", c16any, func(d *simple.Def) { d.MinItems = c16i(2) }},
	{"uniqueItems", "uniqueItems", c16any, func(d *simple.Def) { d.UniqueItems = true }},
}

// enum members are what a JSON document yields: float64, string, bool; always of the declared type.
func c16enumFor(typ string) []interface{} {
	switch typ {
	case "string":
		return []interface{}{"a", "bb"}
	case "integer":
		return []interface{}{float64(1), float64(3)}
	case "number":
		return []interface{}{0.5, float64(2)}
	case "boolean":
		return []interface{}{true}
	}
	return nil
}

type c16tf struct{ typ, format string }

// leaf type x (no format | a format belonging to the type)
var c16leaves = []c16tf{
	{"string", ""}, {"string", "date"}, {"string", "email"}, {"string", "uuid"},
	{"integer", ""}, {"integer", "int32"}, {"integer", "int64"},
	{"number", ""}, {"number", "float"}, {"number", "double"},
	{"boolean", ""},
}

var c16formatsOf = map[string][]string{
	"string":  {"date", "email", "uuid"},
	"integer": {"int32", "int64"},
	"number":  {"float", "double"},
}

// c16defs enumerates, in a fixed order, every definition with 0..maxDepth array levels above a
// scalar leaf and at most two constraints over all levels. fn returns false to stop.
func c16defs(maxDepth int, fn func(ord int, d *simple.Def) bool) {
	ord := 0
	type slot struct{ lvl, atom int }
	for depth := 0; depth <= maxDepth; depth++ {
		for _, leaf := range c16leaves {
			types := make([]string, depth+1)
			for i := 0; i < depth; i++ {
				types[i] = "array"
			}
			types[depth] = leaf.typ
			var slots []slot
			for l, t := range types {
				for a, at := range c16atoms {
					if at.ok(t) {
						slots = append(slots, slot{l, a})
					}
				}
			}
			build := func(chosen ...slot) *simple.Def {
				levels := make([]*simple.Def, depth+1)
				for l := range levels {
					levels[l] = &simple.Def{Type: types[l]}
					if l > 0 {
						levels[l-1].Items = levels[l]
					}
				}
				levels[depth].Format = leaf.format
				for _, s := range chosen {
					at := c16atoms[s.atom]
					if at.set == nil {
						levels[s.lvl].Enum = c16enumFor(types[s.lvl])
					} else {
						at.set(levels[s.lvl])
					}
				}
				return levels[0]
			}
			emit := func(d *simple.Def) bool {
				ok := fn(ord, d)
				ord++
				return ok
			}
			if !emit(build()) {
				return
			}
			for i := range slots {
				if !emit(build(slots[i])) {
					return
				}
			}
			for i := range slots {
				for j := i + 1; j < len(slots); j++ {
					if slots[i].lvl == slots[j].lvl && c16atoms[slots[i].atom].field == c16atoms[slots[j].atom].field {
						continue
					}
					if !emit(build(slots[i], slots[j])) {
						return
					}
				}
			}
		}
	}
}

func c16num(x float64) string { return strconv.FormatFloat(x, 'g', -1, 64) }

// c16defText is the canonical text of a definition (fixed key order).
func c16defText(d *simple.Def) string {
	var b strings.Builder
	b.WriteString("{type:" + d.Type)
	if d.Format != "" {
		b.WriteString(",format:" + d.Format)
	}
	if len(d.Enum) > 0 {
		b.WriteString(",enum:[")
		for i, m := range d.Enum {
			if i > 0 {
				b.WriteString(",")
			}
			switch x := m.(type) {
			case float64:
				b.WriteString(c16num(x))
			case string:
				b.WriteString(strconv.Quote(x))
			default:
				fmt.Fprint(&b, x)
			}
		}
		b.WriteString("]")
	}
	if d.Maximum != nil {
		b.WriteString(",maximum:" + c16num(*d.Maximum))
	}
	if d.ExclusiveMaximum {
		b.WriteString(",exclusiveMaximum:true")
	}
	if d.Minimum != nil {
		b.WriteString(",minimum:" + c16num(*d.Minimum))
	}
	if d.ExclusiveMinimum {
		b.WriteString(",exclusiveMinimum:true")
	}
	if d.MultipleOf != nil {
		b.WriteString(",multipleOf:" + c16num(*d.MultipleOf))
	}
	if d.MaxLength != nil {
		b.WriteString(",maxLength:" + strconv.FormatInt(*d.MaxLength, 10))
	}
	if d.MinLength != nil {
		b.WriteString(",minLength:" + strconv.FormatInt(*d.MinLength, 10))
	}
	if d.Pattern != "" {
		b.WriteString(",pattern:" + strconv.Quote(d.Pattern))
	}
	if d.MaxItems != nil {
		b.WriteString(",maxItems:" + strconv.FormatInt(*d.MaxItems, 10))
	}
	if d.MinItems != nil {
		b.WriteString(",minItems:" + strconv.FormatInt(*d.MinItems, 10))
	}
	if d.UniqueItems {
		b.WriteString(",uniqueItems:true")
	}
	if d.Items != nil {
		b.WriteString(",items:" + c16defText(d.Items))
	}
	b.WriteString("}")
	return b.String()
}

func c16clone(d *simple.Def) *simple.Def {
	if d == nil {
		return nil
	}
	c := *d
	c.Enum = append([]interface{}(nil), d.Enum...)
	cp := func(p *float64) *float64 {
		if p == nil {
			return nil
		}
		return c16f(*p)
	}
	ci := func(p *int64) *int64 {
		if p == nil {
			return nil
		}
		return c16i(*p)
	}
	c.Maximum, c.Minimum, c.MultipleOf = cp(d.Maximum), cp(d.Minimum), cp(d.MultipleOf)
	c.MaxLength, c.MinLength, c.MaxItems, c.MinItems = ci(d.MaxLength), ci(d.MinLength), ci(d.MaxItems), ci(d.MinItems)
	c.Items = c16clone(d.Items)
	return &c
}

// the library's objects; nothing is shared with the reference's definition
func c16validations(d *simple.Def) spec.CommonValidations {
	c := c16clone(d)
	return spec.CommonValidations{
		Maximum: c.Maximum, ExclusiveMaximum: c.ExclusiveMaximum,
		Minimum: c.Minimum, ExclusiveMinimum: c.ExclusiveMinimum,
		MaxLength: c.MaxLength, MinLength: c.MinLength, Pattern: c.Pattern,
		MaxItems: c.MaxItems, MinItems: c.MinItems, UniqueItems: c.UniqueItems,
		MultipleOf: c.MultipleOf, Enum: c.Enum,
	}
}

func c16items(d *simple.Def) *spec.Items {
	if d == nil {
		return nil
	}
	it := spec.NewItems()
	it.Type, it.Format = d.Type, d.Format
	it.CommonValidations = c16validations(d)
	it.Items = c16items(d.Items)
	return it
}

func c16param(d *simple.Def) *spec.Parameter {
	p := spec.QueryParam("p")
	p.Required = false
	p.Type, p.Format = d.Type, d.Format
	p.CommonValidations = c16validations(d)
	p.Items = c16items(d.Items)
	return p
}

func c16header(d *simple.Def) *spec.Header {
	h := spec.ResponseHeader()
	h.Type, h.Format = d.Type, d.Format
	h.CommonValidations = c16validations(d)
	h.Items = c16items(d.Items)
	return h
}

// ---------------------------------------------------------------------------------------------
// values

var c16kinds = []reflect.Type{ // simplest first (shrinking retargets towards the front)
	reflect.TypeOf(int(0)), reflect.TypeOf(int64(0)), reflect.TypeOf(int32(0)), reflect.TypeOf(int16(0)), reflect.TypeOf(int8(0)),
	reflect.TypeOf(uint(0)), reflect.TypeOf(uint64(0)), reflect.TypeOf(uint32(0)), reflect.TypeOf(uint16(0)), reflect.TypeOf(uint8(0)),
	reflect.TypeOf(float64(0)), reflect.TypeOf(float32(0)),
}
var (
	c16tString = reflect.TypeOf("")
	c16tBool   = reflect.TypeOf(false)
)

// simplest first
var c16numRank = []float64{0, 1, 2, 3, 4, -1, -2, 0.5, 1.5, 2.5, -1.5}
var c16strRank = []string{"x", "a", "b", "aa", "bb", "aaa", "é", "éé", "2020-01-01", "a@b.co", "a8098c1a-f86e-11da-bd1a-00112444be1e", ""}

func c16isInt(k reflect.Kind) bool  { return k >= reflect.Int && k <= reflect.Int64 }
func c16isUint(k reflect.Kind) bool { return k >= reflect.Uint && k <= reflect.Uint64 }
func c16isFloat(k reflect.Kind) bool {
	return k == reflect.Float32 || k == reflect.Float64
}
func c16isNum(k reflect.Kind) bool { return c16isInt(k) || c16isUint(k) || c16isFloat(k) }

// c16repr: is the number b exactly representable in the Go type of kind k?
func c16repr(k reflect.Kind, b float64) bool {
	if math.IsNaN(b) || math.IsInf(b, 0) {
		return false
	}
	integral := b == math.Trunc(b)
	switch k {
	case reflect.Int8:
		return integral && b >= math.MinInt8 && b <= math.MaxInt8
	case reflect.Int16:
		return integral && b >= math.MinInt16 && b <= math.MaxInt16
	case reflect.Int32:
		return integral && b >= math.MinInt32 && b <= math.MaxInt32
	case reflect.Int, reflect.Int64:
		return integral && b >= -9223372036854775808.0 && b < 9223372036854775808.0
	case reflect.Uint8:
		return integral && b >= 0 && b <= math.MaxUint8
	case reflect.Uint16:
		return integral && b >= 0 && b <= math.MaxUint16
	case reflect.Uint32:
		return integral && b >= 0 && b <= math.MaxUint32
	case reflect.Uint, reflect.Uint64:
		return integral && b >= 0 && b < 18446744073709551616.0
	case reflect.Float32:
		return float64(float32(b)) == b
	case reflect.Float64:
		return true
	}
	return false
}

// c16conv makes the Go value of type t that holds the number x (caller checked c16repr).
func c16conv(t reflect.Type, x float64) reflect.Value {
	return reflect.ValueOf(x).Convert(t)
}

// c16slice builds a typed (possibly nested) slice of type t from a tree of []interface{} whose
// leaves are float64 / string / bool.
func c16slice(t reflect.Type, tree []interface{}) reflect.Value {
	s := reflect.MakeSlice(t, 0, len(tree))
	for _, c := range tree {
		if t.Elem().Kind() == reflect.Slice {
			s = reflect.Append(s, c16slice(t.Elem(), c.([]interface{})))
		} else {
			s = reflect.Append(s, reflect.ValueOf(c).Convert(t.Elem()))
		}
	}
	return s
}

type c16value struct {
	v    interface{}
	text string
}

func c16lit(rv reflect.Value) string {
	k := rv.Kind()
	switch {
	case c16isInt(k):
		return strconv.FormatInt(rv.Int(), 10)
	case c16isUint(k):
		return strconv.FormatUint(rv.Uint(), 10)
	case k == reflect.Float32:
		return strconv.FormatFloat(rv.Float(), 'f', -1, 32)
	case k == reflect.Float64:
		return strconv.FormatFloat(rv.Float(), 'f', -1, 64)
	case k == reflect.String:
		return strconv.Quote(rv.String())
	case k == reflect.Bool:
		return strconv.FormatBool(rv.Bool())
	case k == reflect.Slice:
		var b strings.Builder
		b.WriteString("{")
		for i := 0; i < rv.Len(); i++ {
			if i > 0 {
				b.WriteString(",")
			}
			b.WriteString(c16lit(rv.Index(i)))
		}
		b.WriteString("}")
		return b.String()
	}
	return fmt.Sprintf("%#v", rv.Interface())
}

// c16valText renders a value in Go syntax: int32(5), "x", true, []string{"x"}, [][]int{{1},{2}}, nil.
func c16valText(v interface{}) string {
	if v == nil {
		return "nil"
	}
	rv := reflect.ValueOf(v)
	k := rv.Kind()
	switch {
	case c16isNum(k):
		return rv.Type().String() + "(" + c16lit(rv) + ")"
	case k == reflect.Slice:
		return rv.Type().String() + c16lit(rv)
	}
	return c16lit(rv)
}

// c16values is the value alphabet: every Go kind of the matching and the non-matching families.
func c16values(maxDepth int) []c16value {
	var out []c16value
	seen := map[string]bool{}
	add := func(v interface{}) {
		t := c16valText(v)
		if seen[t] {
			return
		}
		seen[t] = true
		out = append(out, c16value{v, t})
	}
	add(nil)
	// scalars: every numeric width with the small numbers it can hold exactly
	for _, t := range c16kinds {
		for _, x := range c16numRank {
			if c16repr(t.Kind(), x) {
				add(c16conv(t, x).Interface())
			}
		}
	}
	// ends of the ranges the formats speak about (all inside int64)
	for _, v := range []interface{}{
		int8(math.MinInt8), int8(math.MaxInt8), uint8(math.MaxUint8), int16(math.MinInt16), uint16(math.MaxUint16),
		int32(math.MaxInt32), int32(math.MinInt32), uint32(math.MaxUint32),
		int64(math.MaxInt32), int64(math.MaxInt32 + 1), int64(math.MinInt32), int64(math.MinInt32 - 1),
		int64(math.MaxInt64), int64(math.MinInt64), int(math.MaxInt64), int(math.MinInt64), uint64(math.MaxInt64), uint(math.MaxInt32),
		float64(math.MaxInt32), float64(math.MaxInt32 + 1), float64(math.MinInt32), float32(16777216), float64(16777216),
	} {
		add(v)
	}
	for _, s := range c16strRank {
		add(s)
	}
	add(true)
	add(false)

	// slices
	type elems = []interface{}
	pool := func(t reflect.Type) elems {
		switch {
		case t == c16tString:
			return elems{"a", "aa", "x", "b", "2020-01-01", "a@b.co", ""}
		case t == c16tBool:
			return elems{true, false}
		case c16isUint(t.Kind()):
			return elems{1.0, 2.0, 3.0, 0.0, 4.0}
		case c16isFloat(t.Kind()):
			return elems{1.0, 2.0, 3.0, 0.5, 1.5, -1.0}
		}
		return elems{1.0, 2.0, 3.0, -1.0, 0.0, 4.0}
	}
	elemTypes := append([]reflect.Type{}, c16kinds...)
	elemTypes = append(elemTypes, c16tString, c16tBool)
	full := map[reflect.Kind]bool{reflect.Int: true, reflect.Int32: true, reflect.Int64: true, reflect.Uint: true, reflect.Float64: true, reflect.String: true, reflect.Bool: true}
	for _, et := range elemTypes {
		if et.Kind() == reflect.Uint8 {
			continue // []uint8 is []byte, which the library reads as a base64 string: left outside (reported)
		}
		st := reflect.SliceOf(et)
		p := pool(et)
		e := func(i int) interface{} { return p[i%len(p)] }
		trees := []elems{{}, {e(0)}, {e(0), e(1)}, {e(2)}}
		if full[et.Kind()] {
			for i := range p {
				trees = append(trees, elems{p[i]})
			}
			trees = append(trees, elems{e(0), e(0)}, elems{e(0), e(1), e(2)}, elems{e(1), e(0), e(1)}, elems{e(0), e(2)})
		}
		for _, tr := range trees {
			add(c16slice(st, tr).Interface())
		}
	}
	// nested slices
	nestedOf := []reflect.Type{reflect.TypeOf(int(0)), c16tString, reflect.TypeOf(float64(0)), reflect.TypeOf(int32(0)), c16tBool, reflect.TypeOf(uint16(0))}
	for _, et := range nestedOf {
		p := pool(et)
		a, b, c := p[0], p[1%len(p)], p[2%len(p)]
		t2 := reflect.SliceOf(reflect.SliceOf(et))
		for _, tr := range []elems{
			{}, {elems{}}, {elems{a}}, {elems{c}}, {elems{a}, elems{a}}, {elems{a, b}, elems{c}}, {elems{a}, elems{}}, {elems{a, a}}, {elems{a}, elems{b}, elems{c}},
		} {
			add(c16slice(t2, tr).Interface())
		}
	}
	deep := []reflect.Type{reflect.TypeOf(int(0)), c16tString}
	if maxDepth >= 3 {
		deep = append(deep, reflect.TypeOf(float64(0)), reflect.TypeOf(uint32(0)))
	}
	for _, et := range deep {
		p := pool(et)
		a, b, c := p[0], p[1%len(p)], p[2%len(p)]
		t3 := reflect.SliceOf(reflect.SliceOf(reflect.SliceOf(et)))
		for _, tr := range []elems{
			{}, {elems{}}, {elems{elems{}}}, {elems{elems{a}}}, {elems{elems{c}}}, {elems{elems{a}, elems{b}}, elems{elems{c}}}, {elems{elems{a, a}}}, {elems{elems{a}}, elems{elems{a}}},
		} {
			add(c16slice(t3, tr).Interface())
		}
		if maxDepth < 3 {
			continue
		}
		t4 := reflect.SliceOf(t3)
		for _, tr := range []elems{
			{}, {elems{elems{elems{}}}}, {elems{elems{elems{a}}}}, {elems{elems{elems{c}}}}, {elems{elems{elems{a, b}}, elems{elems{c}}}}, {elems{elems{elems{a, a}}}},
			{elems{elems{elems{a}}}, elems{elems{elems{a}}}}, {elems{elems{elems{a}, elems{a}}}},
		} {
			add(c16slice(t4, tr).Interface())
		}
		t5 := reflect.SliceOf(t4) // one level more than any definition: never of the declared type
		add(c16slice(t5, elems{elems{elems{elems{elems{a}}}}}).Interface())
	}
	return out
}

// ---------------------------------------------------------------------------------------------
// input domain (DESIGN.md "### C16"), decided without consulting the library

var (
	c16minInt64 = simple.MustRat(int64(math.MinInt64))
	c16maxInt64 = simple.MustRat(int64(math.MaxInt64))
)

// c16inDomain says whether the claim of C16 speaks about (carrier, d, v):
//   - the empty string is not given to a header (top level);
//   - every number stays inside int64 and inside the range of the format declared where it is judged;
//   - every bound, multipleOf and enum member met by a number is exactly representable in the Go
//     type that carries that number;
//   - slices are typed slices, without nil elements, and not []byte.
func c16inDomain(header bool, d *simple.Def, v interface{}) bool {
	if v == nil {
		return true
	}
	rv := reflect.ValueOf(v)
	if header && rv.Kind() == reflect.String && rv.Len() == 0 {
		return false
	}
	return c16dom(d, rv)
}

func c16dom(d *simple.Def, rv reflect.Value) bool {
	k := rv.Kind()
	switch {
	case c16isNum(k):
		x, ok := simple.Rat(rv.Interface())
		if !ok || x.Cmp(c16minInt64) < 0 || x.Cmp(c16maxInt64) > 0 {
			return false
		}
		if d == nil {
			return true
		}
		if d.Type == "integer" || d.Type == "number" {
			if lo, hi := simple.FormatRange(d.Type, d.Format); lo != nil && (x.Cmp(lo) < 0 || x.Cmp(hi) > 0) {
				return false
			}
		}
		for _, b := range []*float64{d.Maximum, d.Minimum, d.MultipleOf} {
			if b != nil && !c16repr(k, *b) {
				return false
			}
		}
		// enum members need NOT be representable in the Go type of the value: membership is decided on
		// the numbers (an int 0 is not a member of [0.5, 2]); the restriction that used to stand here
		// dated from before the enum conversions were repaired (fix 1ec66fe) and hid a wrong
		// direction of conversion
		return true
	case k == reflect.String, k == reflect.Bool:
		return true
	case k == reflect.Slice:
		if rv.Type().Elem().Kind() == reflect.Uint8 {
			return false
		}
		var items *simple.Def
		if d != nil && d.Type == "array" {
			items = d.Items
		}
		for i := 0; i < rv.Len(); i++ {
			e := rv.Index(i)
			if e.Kind() == reflect.Interface || e.Kind() == reflect.Ptr {
				return false
			}
			if !c16dom(items, e) {
				return false
			}
		}
		return true
	}
	return false
}

// ---------------------------------------------------------------------------------------------
// the library

type c16out struct {
	nilResult bool
	valid     bool
	panicked  string
	errs      []string
}

func c16lib(header bool, d *simple.Def, v interface{}) (o c16out) {
	defer func() {
		if r := recover(); r != nil {
			o = c16out{panicked: panicText(r)}
			resetPools()
		}
	}()
	var res *validate.Result
	if header {
		res = validate.NewHeaderValidator("h", c16header(d), strfmt.Default).Validate(v)
	} else {
		res = validate.NewParamValidator(c16param(d), strfmt.Default).Validate(v)
	}
	if res == nil {
		return c16out{nilResult: true}
	}
	return c16out{valid: res.IsValid(), errs: hx.SortedMsgs(res.Errors)}
}

// c16judge compares library and reference on one in-domain case. kind is "" when they agree:
//
//	accepts         library valid, reference invalid
//	rejects         library invalid, reference valid
//	panic           the library panicked
//	not-validated   nil result for a non-nil value
//	validates-nil   a result for a nil value
func c16judge(header bool, d *simple.Def, v interface{}) (kind, detail string, lib c16out, want bool) {
	lib = c16lib(header, d, v)
	if lib.panicked != "" {
		return "panic", "library panics: " + lib.panicked, lib, false
	}
	if v == nil {
		if !lib.nilResult {
			return "validates-nil", fmt.Sprintf("nil value: library returns a result (valid=%v), expected no result", lib.valid), lib, false
		}
		return "", "", lib, false
	}
	want, why := simple.Check(d, v, strfmt.Default)
	if lib.nilResult {
		return "not-validated", fmt.Sprintf("non-nil value: library returns no result; simple-schema reference valid=%v", want), lib, want
	}
	if lib.valid == want {
		return "", "", lib, want
	}
	if lib.valid {
		return "accepts", "library valid=true, simple-schema reference valid=false (" + why + ")", lib, want
	}
	msg := ""
	if len(lib.errs) > 0 {
		msg = lib.errs[0]
	}
	return "rejects", "library valid=false (" + msg + "), simple-schema reference valid=true", lib, want
}

func c16carrier(header bool) string {
	if header {
		return "header"
	}
	return "param"
}

func c16sig(header bool, d *simple.Def, v interface{}) string {
	return c16carrier(header) + c16defText(d) + " ⊢ " + c16valText(v)
}

// ---------------------------------------------------------------------------------------------
// the check

func c16(c *hx.Ctx) int {
	depth := 2
	if !c.Quick() {
		depth = 4
	}
	if len(c.Args) >= 1 && c.Args[0] == "--list" { // diagnostic: print the spaces
		c16defs(depth, func(ord int, d *simple.Def) bool { fmt.Println(ord, c16defText(d)); return true })
		for _, v := range c16values(depth) {
			fmt.Println(v.text)
		}
		return 0
	}
	if c.Worker >= 0 {
		return c16worker(c, depth)
	}
	if c.Quick() {
		c.Budget = 120 * second
	} else {
		c.Budget = 1200 * second
	}
	// the two alphabets are duplicate-free (so that every (definition, value) pair is distinct)
	defSet := map[string]bool{}
	ndefs := 0
	c16defs(depth, func(_ int, d *simple.Def) bool { ndefs++; defSet[c16defText(d)] = true; return true })
	vals := c16values(depth)
	if len(defSet) != ndefs {
		fmt.Printf("HARNESS-ERROR C16 definition enumeration yields duplicates: %d texts for %d definitions\n", len(defSet), ndefs)
		return 2
	}
	rep := c.RunWorkers(16, 16)
	if rep.HarnessErr == "" {
		switch {
		case rep.Counters["lib_valid"] == 0 || rep.Counters["lib_invalid"] == 0:
			rep.HarnessErr = "vacuous run: the library produced fewer than 2 distinct verdicts"
		case rep.Counters["ref_valid_pairs"] == 0 || rep.Counters["ref_invalid_pairs"] == 0:
			rep.HarnessErr = "vacuous run: the reference produced fewer than 2 distinct verdicts"
		case rep.Exhaustive && rep.Counters["definitions"] != int64(ndefs):
			rep.HarnessErr = fmt.Sprintf("workers covered %d definitions, expected %d", rep.Counters["definitions"], ndefs)
		}
	}
	sort.Slice(rep.Samples, func(i, j int) bool { return hx.JSON(rep.Samples[i]) < hx.JSON(rep.Samples[j]) })
	if len(rep.Samples) > 5 {
		rep.Samples = rep.Samples[:5]
	}
	cov := map[string]any{
		"evaluations":         rep.Counters["evaluations"],
		"distinct_nontrivial": rep.Counters["ref_invalid_pairs"],
		"rule": fmt.Sprintf("all simple-schema definitions with 0..%d array levels over a scalar leaf (type x {no format, formats of the type}: %d leaves) and <= 2 constraints out of %d atoms placed on any level (%d definitions), each as a query parameter (required off) and as a response header, x %d Go values (nil; %d numeric kinds x small numbers and range ends; strings; bools; typed slices of every kind but uint8, nested up to %d levels); "+
			"every in-domain (carrier, definition, value) is one NewParamValidator/NewHeaderValidator(...).Validate call compared with ref/simple; distinct_nontrivial = distinct (definition, value) pairs the reference rejects, counted per worker with a set over the canonical texts (definitions and values are duplicate-free, shards are disjoint)",
			depth, len(c16leaves), len(c16atoms), ndefs, len(vals), len(c16kinds), depth+1),
		"definitions":                    ndefs,
		"values":                         len(vals),
		"evaluations_param":              rep.Counters["evaluations_param"],
		"evaluations_header":             rep.Counters["evaluations_header"],
		"outside_domain_param":           rep.Counters["outside_domain_param"],
		"outside_domain_header":          rep.Counters["outside_domain_header"],
		"nil_value_calls":                rep.Counters["nil_value_calls"],
		"distinct_minimal_disagreements": len(rep.Violations),
	}
	return hx.Finish(c, "exploration", rep, cov, []string{
		"ref/simple (written from the Swagger 2.0 simple-schema keywords and the statement of C16) is the oracle; string formats are delegated to strfmt.Default on both sides",
		"domain (DESIGN.md C16): no empty string for a header; numbers inside int64 and inside the declared format's range; bounds, multipleOf and enum members exactly representable in the Go type of the number they meet, integral for integer definitions and inside the format's range; enum on scalar types only, members of the declared type as JSON yields them (float64/string/bool); typed slices without nil elements, []byte excluded; items always present under array",
		"non-integral floats are small binary fractions and floats stay below 2^31 in magnitude (large or near-integral floats are C13's subject)",
		"validators are built without options (no recycling)",
	})
}

func c16hash(a, b string) uint64 {
	h := fnv.New64a()
	h.Write([]byte(a))
	h.Write([]byte{0})
	h.Write([]byte(b))
	return h.Sum64()
}

func c16worker(c *hx.Ctx, depth int) int {
	rep := hx.NewReport()
	vals := c16values(depth)
	refInvalid := map[uint64]struct{}{}
	refValid := map[uint64]struct{}{}
	sh := newC16shrinker(vals)
	mine := 0 // definitions of this shard so far
	recycledViolations := 0
	c16defs(depth, func(ord int, d *simple.Def) bool {
		if ord%c.Workers != c.Worker {
			return true
		}
		if c.Expired() {
			rep.Exhaustive = false
			return false
		}
		rep.Inc("definitions", 1)
		dt := c16defText(d)
		hx.AnnounceCase(dt)
		for vi, val := range vals {
			judged := false
			for _, header := range []bool{false, true} {
				if !c16inDomain(header, d, val.v) {
					rep.Inc("outside_domain_"+c16carrier(header), 1)
					continue
				}
				judged = true
				rep.Inc("evaluations", 1)
				rep.Inc("evaluations_"+c16carrier(header), 1)
				kind, _, lib, _ := c16judge(header, d, val.v)
				switch {
				case val.v == nil:
					rep.Inc("nil_value_calls", 1)
				case lib.valid:
					rep.Inc("lib_valid", 1)
				default:
					rep.Inc("lib_invalid", 1)
				}
				if kind == "" {
					continue
				}
				rep.Inc("disagreements", 1)
				if v := sh.minimal(header, d, val.v, kind); v != nil {
					rep.AddViolation(*v)
				}
			}
			if judged && val.v != nil {
				if simple.Valid(d, val.v) {
					refValid[c16hash(dt, val.text)] = struct{}{}
				} else {
					refInvalid[c16hash(dt, val.text)] = struct{}{}
				}
			}
			if judged && len(rep.Samples) < 1 && mine == 40+31*c.Worker && vi == (67*c.Worker+13)%len(vals) {
				_, _, lib, want := c16judge(false, d, val.v)
				rep.Samples = append(rep.Samples, map[string]any{"carrier": "param", "definition": dt, "value": val.text, "reference_valid": want, "library_valid": lib.valid})
			}
		}
		// second pass, recycling validators (the mode spec validation uses for defaults and examples),
		// each slice value as the typed Go slice and as the []interface{} a JSON decoder yields: state
		// left on a pooled validator by one shows in the other
		recycledViolations += c16recycledPass(d, dt, vals, rep, recycledViolations)
		mine++
		return true
	})
	rep.Inc("pairs", int64(len(refValid)+len(refInvalid)))
	rep.Inc("ref_invalid_pairs", int64(len(refInvalid)))
	rep.Inc("ref_valid_pairs", int64(len(refValid)))
	hx.EmitWorkerReport(rep)
	return 0
}


// c16untyped turns a typed slice into the []interface{} tree encoding/json would produce.
func c16untyped(rv reflect.Value) interface{} {
	if rv.Kind() != reflect.Slice {
		return rv.Interface()
	}
	out := make([]interface{}, rv.Len())
	for i := range out {
		out[i] = c16untyped(rv.Index(i))
	}
	return out
}

func c16libRecycled(header bool, d *simple.Def, v interface{}) (o c16out) {
	defer func() {
		if r := recover(); r != nil {
			o = c16out{panicked: panicText(r)}
			resetPools()
		}
	}()
	var res *validate.Result
	if header {
		res = validate.NewHeaderValidator("h", c16header(d), strfmt.Default, validate.WithRecycleValidators(true)).Validate(v)
	} else {
		res = validate.NewParamValidator(c16param(d), strfmt.Default, validate.WithRecycleValidators(true)).Validate(v)
	}
	if res == nil {
		return c16out{nilResult: true}
	}
	return c16out{valid: res.IsValid(), errs: hx.SortedMsgs(res.Errors)}
}

func c16recycledPass(d *simple.Def, dt string, vals []c16value, rep *hx.Report, already int) int {
	found := 0
	if d.Type != "array" {
		return 0
	}
	prev := map[bool]interface{}{}
	for _, val := range vals {
		if val.v == nil {
			continue
		}
		rv := reflect.ValueOf(val.v)
		if rv.Kind() != reflect.Slice {
			continue
		}
		for _, header := range []bool{false, true} {
			if !c16inDomain(header, d, val.v) {
				continue
			}
			want, why := simple.Check(d, val.v, strfmt.Default)
			// order of calls on the pooled objects: typed(other kind) ; untyped(this) ; typed(this)
			if prev[header] != nil {
				c16libRecycled(header, d, prev[header])
			}
			prev[header] = val.v
			for vi, lv := range []interface{}{c16untyped(rv), val.v} {
				rep.Inc("evaluations", 1)
				rep.Inc("evaluations_recycled", 1)
				lib := c16libRecycled(header, d, lv)
				bad := ""
				switch {
				case lib.panicked != "":
					bad = "library panics: " + lib.panicked
				case lib.nilResult:
					bad = "no result for a non-nil value"
				case lib.valid != want:
					bad = fmt.Sprintf("library valid=%v, simple-schema reference valid=%v (%s)", lib.valid, want, why)
				}
				if bad == "" || already+found >= 6 {
					continue
				}
				found++
				form := "typed slice"
				if vi == 0 {
					form = "the same value as []interface{}, after a typed slice of another kind"
				}
				rep.AddViolation(hx.Violation{
					Signature: "recycled: " + c16sig(header, d, val.v) + " (" + form + ")",
					What:      fmt.Sprintf("%s with a recycling validator, %s: %s", c16sig(header, d, val.v), form, bad),
					Replay:    map[string]any{"carrier": c16carrier(header), "definition": dt, "value": val.text, "form": form},
				})
			}
		}
	}
	return found
}
