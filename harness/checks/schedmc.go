package checks

import (
	"fmt"
	"os"
	"path/filepath"
	"regexp"
	"strings"

	"github.com/go-openapi/validate/verifrt"

	"verif/harness/hx"
)

// schedmc: stateless, preemption-bounded exploration of thread interleavings of the real library
// under the cooperative scheduler of verifrt (scheduling points before every mutex, atomic.Value and
// pool operation), with the race detector awake in every explored schedule.

// Call is one library call made by a thread; it returns an observation text.
type Call struct {
	Name string
	Do   func() string
}

type Scenario struct {
	Name    string
	Setup   func()   // runs before every execution (controller goroutine)
	Threads [][]Call // per thread, in program order
	// Expect returns "" when the observations are acceptable, else a description. obs[t][i] is the
	// observation of call i of thread t.
	Expect func(obs [][]string) string
	// After is evaluated once all threads were joined (global invariants); "" = fine.
	After func() string
	Cfg   verifrt.SchedConfig
}

type schedStats struct {
	Execs, Points, Switches int64
	Capped                  bool
}

func (s Scenario) describe() string {
	var ts []string
	for _, t := range s.Threads {
		var cs []string
		for _, c := range t {
			cs = append(cs, c.Name)
		}
		ts = append(ts, strings.Join(cs, " ; "))
	}
	return s.Name + ": " + strings.Join(ts, "  ∥  ")
}

// exploreScenario explores every schedule of scn with at most `bound` preemptions.
func exploreScenario(scn Scenario, bound, limit int, rep *hx.Report, sets *hx.SetAdder) schedStats {
	return exploreScenarioSharded(scn, bound, limit, 0, 1, rep, sets)
}

func exploreScenarioSharded(scn Scenario, bound, limit, shard, shards int, rep *hx.Report, sets *hx.SetAdder) schedStats {
	var st schedStats
	var obs [][]string
	var deadlock string
	var panics []any
	var log []verifrt.SchedEvent
	raceBefore := 0
	run := func(prefix []int) verifrt.Trace {
		if scn.Setup != nil {
			scn.Setup()
		}
		obs = make([][]string, len(scn.Threads))
		bodies := make([]func(), len(scn.Threads))
		for t := range scn.Threads {
			t := t
			obs[t] = make([]string, len(scn.Threads[t]))
			bodies[t] = func() {
				for i, c := range scn.Threads[t] {
					obs[t][i] = c.Do()
				}
			}
		}
		raceBefore = verifrt.RaceErrors()
		d := &verifrt.Driver{Prefix: prefix, MaxPoints: 200000}
		d.Enabled[verifrt.KSched] = true
		verifrt.Install(d)
		cfg := scn.Cfg
		cfg.KeepLog = true
		var sw int
		panics, deadlock, sw, log = verifrt.RunThreads(cfg, bodies...)
		t := d.TraceOf()
		verifrt.Install(nil)
		st.Switches += int64(sw)
		st.Points += int64(len(t.Points))
		return t
	}
	schedText := func() string {
		var sb strings.Builder
		last := -1
		for _, e := range log {
			if e.T != last {
				fmt.Fprintf(&sb, " | t%d:", e.T)
				last = e.T
			}
			sb.WriteString(" " + e.Op)
		}
		return sb.String()
	}
	fail := func(prefix []int, kind, what string) {
		rep.AddViolation(hx.Violation{
			Signature: kind + " in " + scn.describe() + sigSuffix(kind, what),
			What:      scn.describe() + " — " + what + " — schedule:" + schedText(),
			Replay:    map[string]any{"scenario": scn.describe(), "schedule_choices": prefix, "schedule": schedText(), "observations": obs, "kind": kind, "detail": what},
		})
	}
	execs, capped, err := verifrt.ExploreSharded(bound, limit, shard, shards, run, func(prefix []int, t verifrt.Trace) bool {
		st.Execs++
		sets.Add("observations", hx.JSON(obs))
		if deadlock != "" {
			fail(prefix, "deadlock", deadlock)
			return false
		}
		for i, p := range panics {
			if p != nil {
				fail(prefix, "panic", fmt.Sprintf("thread %d panicked: %v", i, panicText(p)))
				return false
			}
		}
		if n := verifrt.RaceErrors(); n > raceBefore {
			fail(prefix, "data race", raceSummary())
			return false
		}
		if d := scn.Expect(obs); d != "" {
			fail(prefix, "outcome", d)
			return false
		}
		if scn.After != nil {
			if d := scn.After(); d != "" {
				fail(prefix, "invariant", d)
				return false
			}
		}
		return true
	})
	_ = execs
	st.Capped = capped
	if capped {
		rep.Exhaustive = false
	}
	if err != nil && rep.HarnessErr == "" && len(rep.Violations) == 0 {
		rep.HarnessErr = scn.describe() + ": " + err.Error()
	}
	return st
}

func sigSuffix(kind, what string) string {
	if kind == "data race" {
		return ": " + what
	}
	return ""
}

var reRaceFrame = regexp.MustCompile(`^\s+(/\S+\.go):(\d+)`)
var reRaceFunc = regexp.MustCompile(`^  (\S+)\(`)

// raceSummary extracts, from the newest race report in the GORACE log, the two conflicting accesses
// (first frame inside the library for each).
func raceSummary() string {
	gr := os.Getenv("GORACE")
	path := ""
	for _, f := range strings.Fields(gr) {
		if strings.HasPrefix(f, "log_path=") {
			path = strings.TrimPrefix(f, "log_path=")
		}
	}
	if path == "" {
		return "race reported (no GORACE log_path)"
	}
	files, _ := filepath.Glob(path + "." + fmt.Sprint(os.Getpid()))
	if len(files) == 0 {
		return "race reported (log not found)"
	}
	b, err := os.ReadFile(files[0])
	if err != nil {
		return "race reported (log unreadable)"
	}
	reports := strings.Split(string(b), "WARNING: DATA RACE")
	last := reports[len(reports)-1]
	var accesses []string
	var cur string
	inAccess := false
	for _, line := range strings.Split(last, "\n") {
		switch {
		case strings.HasPrefix(line, "Read at") || strings.HasPrefix(line, "Write at") || strings.HasPrefix(line, "Previous read at") || strings.HasPrefix(line, "Previous write at"):
			cur = strings.Fields(strings.TrimPrefix(line, "Previous "))[0]
			inAccess = true
		case strings.HasPrefix(line, "Goroutine ") || line == "":
			inAccess = false
		case inAccess && strings.Contains(line, "verifrt.markReleasedHelper") && cur != "":
			accesses = append(accesses, "hand-back of the object to its pool (any later access by the previous owner is a use after release)")
			cur = ""
		case inAccess:
			if m := reRaceFrame.FindStringSubmatch(line); m != nil && strings.HasPrefix(m[1], "/repo/") && !strings.Contains(m[1], "/verifrt/") && cur != "" {
				accesses = append(accesses, strings.ToLower(cur)+" "+strings.TrimPrefix(m[1], "/repo/")+":"+m[2])
				cur = ""
			}
		}
	}
	if len(accesses) == 0 {
		return "race reported (outside the library frames)"
	}
	return strings.Join(accesses, " vs ")
}
