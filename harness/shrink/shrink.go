// Package shrink reduces a failing (schema, instance) pair deterministically to a minimal one that
// still fails the same predicate. The canonical text of the minimal pair is the *signature* of a
// violation: two different root causes shrink to different minimal pairs.
package shrink

import (
	"encoding/json"
	"sort"
	"strconv"
	"strings"
)

// Pred says whether the pair still shows the failure. schema is a generic JSON object (numbers as
// json.Number), inst a generic JSON value (numbers as json.Number).
type Pred func(schema map[string]any, inst any) bool

func Parse(text string) any {
	d := json.NewDecoder(strings.NewReader(text))
	d.UseNumber()
	var v any
	if err := d.Decode(&v); err != nil {
		panic("shrink.Parse: " + err.Error() + ": " + text)
	}
	return v
}

func Text(v any) string {
	b, err := json.Marshal(v)
	if err != nil {
		return "<" + err.Error() + ">"
	}
	return string(b)
}

func clone(v any) any { return Parse(Text(v)) }

// Pair shrinks until no candidate still fails. budget bounds predicate calls.
func Pair(schema map[string]any, inst any, p Pred, budget int) (map[string]any, any) {
	return Pair2(schema, inst, p, p, budget)
}

// Pair2 uses proj to accept a projection onto a child pair (which may legitimately flip the kind of
// failure: a wrongly accepted branch of `not`/`oneOf` makes the parent wrongly reject) and p for every
// other step.
func Pair2(schema map[string]any, inst any, p Pred, proj Pred, budget int) (map[string]any, any) {
	calls := 0
	tryWith := func(pr Pred, s map[string]any, i any) bool {
		if calls >= budget {
			return false
		}
		calls++
		ok := false
		func() {
			defer func() {
				if recover() != nil {
					ok = false
				}
			}()
			ok = pr(s, i)
		}()
		return ok
	}
	try := func(s map[string]any, i any) bool { return tryWith(p, s, i) }
	for changed := true; changed && calls < budget; {
		changed = false
		// 1. projection onto a child pair
		for _, c := range projections(schema, inst) {
			if tryWith(proj, c.s, c.i) {
				schema, inst, changed = c.s, c.i, true
				break
			}
		}
		if changed {
			continue
		}
		// 2. schema simplifications
		for _, c := range schemaCands(schema) {
			if try(c, inst) {
				schema, changed = c, true
				break
			}
		}
		if changed {
			continue
		}
		// 3. instance simplifications
		for _, c := range instCands(inst) {
			if try(schema, c) {
				inst, changed = c, true
				break
			}
		}
	}
	return schema, inst
}

type pair struct {
	s map[string]any
	i any
}

func withDefs(root map[string]any, sub any) map[string]any {
	m, ok := clone(sub).(map[string]any)
	if !ok {
		return nil
	}
	if defs, has := root["definitions"]; has && strings.Contains(Text(m), `"$ref"`) {
		if _, own := m["definitions"]; !own {
			m["definitions"] = clone(defs)
		}
	}
	return m
}

func resolve(root map[string]any, s map[string]any) map[string]any {
	for n := 0; n < 10; n++ {
		r, ok := s["$ref"].(string)
		if !ok || !strings.HasPrefix(r, "#/definitions/") {
			return s
		}
		defs, _ := root["definitions"].(map[string]any)
		t, ok := defs[strings.TrimPrefix(r, "#/definitions/")].(map[string]any)
		if !ok {
			return s
		}
		s = t
	}
	return s
}

func projections(schema map[string]any, inst any) []pair {
	var out []pair
	add := func(sub any, i any) {
		if m := withDefs(schema, sub); m != nil {
			out = append(out, pair{m, clone(i)})
		}
	}
	s := schema
	if _, isRef := s["$ref"]; isRef {
		r := resolve(schema, s)
		if Text(r) != Text(s) {
			add(r, inst)
		}
		return out
	}
	for _, k := range []string{"allOf", "anyOf", "oneOf"} {
		if l, ok := s[k].([]any); ok {
			for _, sub := range l {
				add(sub, inst)
			}
		}
	}
	if n, ok := s["not"]; ok {
		add(n, inst)
	}
	if obj, ok := inst.(map[string]any); ok {
		props, _ := s["properties"].(map[string]any)
		for _, k := range keys(obj) {
			if ps, ok := props[k]; ok {
				add(ps, obj[k])
			}
			if pp, ok := s["patternProperties"].(map[string]any); ok {
				for _, p := range keys(pp) {
					add(pp[p], obj[k])
				}
			}
			if ap, ok := s["additionalProperties"].(map[string]any); ok {
				add(ap, obj[k])
			}
		}
		if deps, ok := s["dependencies"].(map[string]any); ok {
			for _, k := range keys(deps) {
				if d, ok := deps[k].(map[string]any); ok {
					add(d, inst)
				}
			}
		}
	}
	if arr, ok := inst.([]any); ok {
		switch it := s["items"].(type) {
		case map[string]any:
			for _, x := range arr {
				add(it, x)
			}
		case []any:
			for i, x := range arr {
				if i < len(it) {
					add(it[i], x)
				}
			}
		}
		if ai, ok := s["additionalItems"].(map[string]any); ok {
			for _, x := range arr {
				add(ai, x)
			}
		}
	}
	return out
}

// lookup resolves a local JSON pointer reference ("#/a/b") inside root.
func lookup(root map[string]any, ref string) (any, bool) {
	if !strings.HasPrefix(ref, "#/") {
		return nil, false
	}
	var cur any = root
	for _, seg := range strings.Split(ref[2:], "/") {
		seg = strings.ReplaceAll(strings.ReplaceAll(seg, "~1", "/"), "~0", "~")
		switch c := cur.(type) {
		case map[string]any:
			n, ok := c[seg]
			if !ok {
				return nil, false
			}
			cur = n
		case []any:
			i, err := strconv.Atoi(seg)
			if err != nil || i < 0 || i >= len(c) {
				return nil, false
			}
			cur = c[i]
		default:
			return nil, false
		}
	}
	return cur, true
}

// Flatten returns sub with every local reference (resolved against root) replaced by its target down
// to the given depth; references left below that depth become {} (accept-all). The result has no
// references and needs no definitions. It is a *candidate*: the caller re-checks its predicate.
func Flatten(root map[string]any, sub map[string]any, depth int) map[string]any {
	var walk func(v any, d int) any
	walk = func(v any, d int) any {
		switch t := v.(type) {
		case map[string]any:
			if r, ok := t["$ref"].(string); ok {
				if d >= depth {
					return map[string]any{}
				}
				if tgt, ok := lookup(root, r); ok {
					return walk(clone(tgt), d+1)
				}
				return map[string]any{}
			}
			o := map[string]any{}
			for k, x := range t {
				if k == "definitions" {
					continue
				}
				o[k] = walk(x, d)
			}
			return o
		case []any:
			o := make([]any, len(t))
			for i, x := range t {
				o[i] = walk(x, d)
			}
			return o
		}
		return v
	}
	return walk(clone(sub), 0).(map[string]any)
}

// inlineRefs replaces every local reference by its target (to a bounded depth, recursive schemas keep
// their innermost references) and drops the definitions when no reference is left.
func inlineRefs(root map[string]any) map[string]any {
	var walk func(v any, depth int) any
	walk = func(v any, depth int) any {
		switch t := v.(type) {
		case map[string]any:
			if r, ok := t["$ref"].(string); ok && depth < 4 {
				if tgt, ok := lookup(root, r); ok {
					return walk(clone(tgt), depth+1)
				}
			}
			o := map[string]any{}
			for k, x := range t {
				o[k] = walk(x, depth)
			}
			return o
		case []any:
			o := make([]any, len(t))
			for i, x := range t {
				o[i] = walk(x, depth)
			}
			return o
		}
		return v
	}
	c := clone(root).(map[string]any)
	defs := c["definitions"]
	delete(c, "definitions")
	out := walk(c, 0).(map[string]any)
	if strings.Contains(Text(out), `"$ref"`) && defs != nil {
		out["definitions"] = defs
	}
	return out
}

func schemaCands(s map[string]any) []map[string]any {
	var out []map[string]any
	if strings.Contains(Text(s), `"$ref"`) {
		if in := inlineRefs(s); len(Text(in)) < 4*len(Text(s))+2000 && Text(in) != Text(s) {
			out = append(out, in)
		}
	}
	ks := keys(s)
	// drop a keyword
	for _, k := range ks {
		if k == "definitions" && strings.Contains(Text(without(s, k)), `"$ref"`) {
			continue
		}
		out = append(out, without(s, k))
	}
	// simplify inside a keyword
	for _, k := range ks {
		if k == "definitions" {
			continue
		}
		for _, v := range valueCands(k, s[k]) {
			c := clone(s).(map[string]any)
			c[k] = v
			out = append(out, c)
		}
	}
	return out
}

func without(s map[string]any, k string) map[string]any {
	c := clone(s).(map[string]any)
	delete(c, k)
	return c
}

// valueCands proposes simpler values for keyword k.
func valueCands(k string, v any) []any {
	var out []any
	switch k {
	case "allOf", "anyOf", "oneOf", "enum", "required":
		l, ok := v.([]any)
		if !ok {
			return nil
		}
		if len(l) > 1 || k == "required" || k == "enum" {
			for i := range l {
				c := append(append([]any{}, l[:i]...), l[i+1:]...)
				if len(c) > 0 {
					out = append(out, clone(c))
				}
			}
		}
		if k == "allOf" || k == "anyOf" || k == "oneOf" {
			for i := range l {
				if m, ok := l[i].(map[string]any); ok {
					for _, sc := range subSchemaCands(m) {
						c := clone(l).([]any)
						c[i] = sc
						out = append(out, c)
					}
				}
			}
		}
	case "not", "additionalProperties", "additionalItems":
		if m, ok := v.(map[string]any); ok {
			for _, sc := range subSchemaCands(m) {
				out = append(out, sc)
			}
		}
	case "items":
		switch it := v.(type) {
		case map[string]any:
			for _, sc := range subSchemaCands(it) {
				out = append(out, sc)
			}
		case []any:
			if len(it) > 1 {
				out = append(out, clone(it[:len(it)-1]))
			}
			for i := range it {
				if m, ok := it[i].(map[string]any); ok {
					for _, sc := range subSchemaCands(m) {
						c := clone(it).([]any)
						c[i] = sc
						out = append(out, c)
					}
				}
			}
		}
	case "properties", "patternProperties", "dependencies":
		m, ok := v.(map[string]any)
		if !ok {
			return nil
		}
		if len(m) > 1 {
			for _, kk := range keys(m) {
				c := clone(m).(map[string]any)
				delete(c, kk)
				out = append(out, c)
			}
		}
		for _, kk := range keys(m) {
			if sm, ok := m[kk].(map[string]any); ok {
				for _, sc := range subSchemaCands(sm) {
					c := clone(m).(map[string]any)
					c[kk] = sc
					out = append(out, c)
				}
			}
		}
	case "type":
		if l, ok := v.([]any); ok && len(l) == 1 {
			out = append(out, l[0])
		}
		if l, ok := v.([]any); ok && len(l) > 1 {
			for i := range l {
				out = append(out, clone(append(append([]any{}, l[:i]...), l[i+1:]...)))
			}
			for i := range l {
				out = append(out, l[i])
			}
		}
	}
	return out
}

func subSchemaCands(m map[string]any) []any {
	var out []any
	if len(m) > 0 {
		out = append(out, map[string]any{})
	}
	if Text(m) != `{"not":{}}` && len(m) > 0 {
		out = append(out, map[string]any{"not": map[string]any{}}) // the canonical unsatisfiable schema
	}
	for _, k := range keys(m) {
		if len(m) > 1 {
			out = append(out, without(m, k))
		}
	}
	for _, k := range keys(m) {
		for _, v := range valueCands(k, m[k]) {
			c := clone(m).(map[string]any)
			c[k] = v
			out = append(out, c)
		}
	}
	return out
}

func instCands(v any) []any {
	var out []any
	if Text(v) != "0" {
		out = append(out, json.Number("0"))
	}
	switch t := v.(type) {
	case map[string]any:
		if len(t) > 2 {
			for _, k := range keys(t) {
				out = append(out, map[string]any{k: clone(t[k])}) // keep a single member
			}
		}
		for _, k := range keys(t) {
			c := clone(t).(map[string]any)
			delete(c, k)
			out = append(out, c)
		}
		for _, k := range keys(t) {
			for _, sc := range instCands(t[k]) {
				c := clone(t).(map[string]any)
				c[k] = sc
				out = append(out, c)
			}
		}
	case []any:
		for i := range t {
			c := append(append([]any{}, t[:i]...), t[i+1:]...)
			out = append(out, clone(c))
		}
		for i := range t {
			for _, sc := range instCands(t[i]) {
				c := clone(t).([]any)
				c[i] = sc
				out = append(out, c)
			}
		}
	case string:
		if t != "" {
			out = append(out, "")
			if len(t) > 1 {
				out = append(out, t[:1])
			}
		}
	case json.Number:
		for _, s := range []string{"0", "1"} {
			if string(t) != s {
				if f, err := strconv.ParseFloat(string(t), 64); err == nil {
					g, _ := strconv.ParseFloat(s, 64)
					if abs(g) < abs(f) || (s == "0" && f != 0) {
						out = append(out, json.Number(s))
					}
				}
			}
		}
	case bool:
		if t {
			out = append(out, false)
		}
	}
	return out
}

func abs(f float64) float64 {
	if f < 0 {
		return -f
	}
	return f
}

func keys(m map[string]any) []string {
	ks := make([]string, 0, len(m))
	for k := range m {
		ks = append(ks, k)
	}
	sort.Strings(ks)
	return ks
}
