#!/usr/bin/env python3
# Regenerates MANIFEST.json from bin/manifest_checks.json (one entry per built check); every property
# without a built check is listed under not_applicable with the reason given there.
import json,sys
spec=json.load(open('/verif/bin/manifest_checks.json'))
props=[json.loads(l)['id'] for l in open('/verif/properties.jsonl')]
checks=[]
for pid in props:
    c=spec['checks'].get(pid)
    if not c: continue
    checks.append({
      "property_id":pid,
      "quick_cmd":f"bin/check {pid} quick",
      "thorough_cmd":f"bin/check {pid} thorough",
      "evidence_file":f"evidence/{pid}.json",
      "replay_cmd_template":f"bin/check {pid} quick --replay {{path}}",
      "engine":c.get("engine","vcheck"),
      "level_claimed":{"category":c["level"],"text":c["text"],"design_ref":c.get("design_ref","DESIGN.md §5 "+pid)},
      "level_note":c["note"],
      "technique":c["technique"]})
na=[{"property_id":p,"reason":spec['not_applicable'].get(p,"check not built yet in this framework (see DESIGN.md §5 for the planned model-checking design)")} for p in props if p not in spec['checks']]
m={"version":1,
 "setup_cmd":"bin/setup",
 "hooks":{"guard":"verif","enable":"no source hooks: instrumentation is injected at build time by `go build -overlay` generated from the current /repo tree (bin/check → bin/mkoverlay-bin); the build tag `verif` is reserved and unused","baseline_off_cmd":"cd /repo && GOFLAGS=-mod=mod go test -json -vet=off -count=1 -timeout 25m ./...","source_commits":[],"add_only":True},
 "engines":spec.get("engines",[]),
 "checks":checks,
 "not_applicable":na,
 "notes":spec.get("notes","")}
json.dump(m,open('/verif/MANIFEST.json','w'),indent=1)
print(len(checks),"checks,",len(na),"not applicable")
